#!/usr/bin/env python3
"""
Determinism self-test: one seed is one execution.

For every check, the per-run event-log digests of a batch (every fault run
included) are folded into one BATCH-DIGEST.  The same VERIF_SEED is executed
under different interpreter hash seeds (fresh interpreters), different worker
counts (1 = every run in ONE process, the configuration most exposed to state
leaking between runs; 16; 7) and twice in the same configuration; all digests
must be identical.  Several seeds are tried.

usage: determinism.py [--size N] [--seeds 3,4,5]
"""
import argparse
import os
import subprocess
import sys
import time

VERIF = os.path.dirname(os.path.dirname(os.path.abspath(__file__)))
PY = "/venv/bin/python"
CHECKS = [
    ("C17", ["checks/c17.py"], "--scenarios", 1.0),
    ("C19", ["checks/c19.py"], "--scenarios", 8.0),
    ("C16", ["checks/c16.py"], "--scenarios", 4.0),
    ("C03", ["checks/edit_session.py", "--property", "C03"], "--sessions",
     8.0),
    ("C04", ["checks/edit_session.py", "--property", "C04"], "--sessions",
     8.0),
    ("C09", ["checks/edit_session.py", "--property", "C09"], "--sessions",
     8.0),
]
CONFIGS = [("0", "16"), ("0", "1"), ("12345", "7"), ("0", "16"),
           ("987", "3")]


def digest(cmd, size_flag, size, seed, hashseed, workers):
    env = dict(os.environ, VERIF_SEED=str(seed), VERIF_HASHSEED=hashseed,
               VERIF_WORKERS=workers)
    env.pop("PYTHONHASHSEED", None)
    proc = subprocess.run([PY] + cmd + ["--digest-only", size_flag,
                                        str(size)],
                          cwd=VERIF, env=env, capture_output=True, text=True,
                          timeout=3600)
    for line in proc.stdout.splitlines():
        if line.startswith("BATCH-DIGEST "):
            return line.split()[1]
    return "NO-DIGEST(exit %d): %s" % (proc.returncode,
                                       (proc.stdout + proc.stderr)[-300:])


def main():
    parser = argparse.ArgumentParser()
    parser.add_argument("--size", type=int, default=400)
    parser.add_argument("--seeds", default="20240917,1,77")
    args = parser.parse_args()
    seeds = [int(s) for s in args.seeds.split(",")]
    bad = 0
    start = time.time()
    for name, cmd, flag, scale in CHECKS:
        size = int(args.size * scale)
        for seed in seeds:
            got = [digest(cmd, flag, size, seed, hs, wk)
                   for hs, wk in CONFIGS]
            same = len(set(got)) == 1 and not got[0].startswith("NO-DIGEST")
            print("%s seed=%-9d size=%-5d %s  %s" % (
                name, seed, size, "IDENTICAL" if same else "DIVERGED",
                got[0][:16] if same else got))
            if not same:
                bad += 1
    print("configurations per seed: %s (hashseed, workers); wall %.0fs"
          % (CONFIGS, time.time() - start))
    sys.exit(1 if bad else 0)


if __name__ == "__main__":
    main()
