#!/venv/bin/python
"""
Fidelity self-test: the simulated file system against the real one.

A sample of fault-free yaml-set / yaml-merge scenarios (the C17 generator) and
of every tool's "file" channel (the C16 generator) is executed twice: in the
simulated world, and against a throw-away directory on the real file system
with the real ``os`` / ``shutil`` / ``tempfile`` / ``open``.  Exit status,
standard output and the bytes of every file afterwards must be equal.  This is
the only place real files are touched; the directory is removed.

usage: fidelity.py [--count N]
"""
import argparse
import io
import os
import random
import shutil
import sys
import tempfile

sys.path.insert(0, os.path.dirname(os.path.dirname(os.path.abspath(__file__))))
from sim import driver  # noqa: E402

driver.bootstrap()

import importlib.util  # noqa: E402
from sim import gen_args  # noqa: E402
from sim.world import TOOLS  # noqa: E402


def load_check(name):
    path = os.path.join(driver.VERIF, "checks", name + ".py")
    spec = importlib.util.spec_from_file_location(name + "_mod", path)
    mod = importlib.util.module_from_spec(spec)
    spec.loader.exec_module(mod)
    return mod


class _Tty(io.TextIOWrapper):
    def __init__(self, data, tty):
        super().__init__(io.BytesIO(data), encoding="utf-8")
        self._tty = tty

    def isatty(self):
        return self._tty


def run_real(recipe, root):
    """The same recipe on the real file system under ``root``."""
    import importlib
    import yamlpath.common.parsers as parsers

    def real(path):
        return path.replace("/sim/w/", root + "/") if isinstance(path, str) \
            else path
    for path in recipe.get("dirs") or []:
        os.makedirs(real(path), exist_ok=True)
    for path, text in recipe["files"].items():
        os.makedirs(os.path.dirname(real(path)), exist_ok=True)
        with open(real(path), "w", encoding="utf-8", newline="") as fhnd:
            fhnd.write(text)
    for path, target in (recipe.get("links") or {}).items():
        os.symlink(real(target), real(path))
    argv = [real(a) for a in recipe["argv"]]
    mod = importlib.import_module(TOOLS[recipe["tool"]])
    stdin = _Tty(recipe.get("stdin", "").encode("utf-8"),
                 recipe.get("tty", True))
    out = io.StringIO()
    err = io.StringIO()
    saved = (sys.argv, sys.stdin, sys.stdout, sys.stderr, parsers.stdin)
    sys.argv = [recipe["tool"]] + argv
    sys.stdin = stdin
    parsers.stdin = stdin
    sys.stdout = out
    sys.stderr = err
    try:
        try:
            mod.main()
            code = 0
        except SystemExit as ex:
            code = ex.code if isinstance(ex.code, int) else \
                (0 if ex.code is None else 1)
        except Exception:  # pylint: disable=broad-except
            code = 1
    finally:
        sys.argv, sys.stdin, sys.stdout, sys.stderr, parsers.stdin = saved
    files = {}
    for where, _dirs, names in os.walk(root):
        for name in sorted(names):
            full = os.path.join(where, name)
            if not os.path.exists(full):
                continue        # a dangling link reads as nothing
            with open(full, "rb") as fhnd:
                files["/sim/w/" + os.path.relpath(full, root)] = fhnd.read()
    return code, out.getvalue().replace(root + "/", "/sim/w/"), files


def main():
    parser = argparse.ArgumentParser()
    parser.add_argument("--count", type=int, default=600)
    args = parser.parse_args()
    c17 = load_check("c17")
    c16 = load_check("c16")
    bad = 0
    done = 0
    skipped = 0
    linked = 0
    for idx in range(args.count):
        rng = random.Random("fidelity/%d" % idx)
        if idx % 2 == 0:
            recipe = c17.gen_scenario(rng)
            if recipe["tool"] == "eyaml-rotate-keys" or recipe["unreadable"] \
                    or "-R" in recipe["argv"] \
                    or any("/../" in a for a in recipe["argv"]) \
                    or any(not p.startswith("/sim/w/")
                           for p in recipe["files"]) \
                    or any(a.startswith("/sim/") and
                           not a.startswith("/sim/w/")
                           for a in recipe["argv"]):
                skipped += 1
                continue
        else:
            tool = c16.TOOLS[idx % len(c16.TOOLS)]
            scn = c16.GENS[tool](rng)
            runs = c16.build_runs(rng, scn, {})
            recipe = runs[rng.choice(sorted(runs))][0]
        recipe = dict(recipe, knobs={})
        sim = driver.execute(recipe)
        root = tempfile.mkdtemp(prefix="verif-fidelity-", dir="/tmp")
        try:
            code, out, files = run_real(recipe, root)
        finally:
            shutil.rmtree(root, ignore_errors=True)
        done += 1
        linked += 1 if recipe.get("links") else 0
        simcode = sim.exit
        same = (simcode == code and sim.stdout == out and sim.fs == files)
        if not same:
            bad += 1
            if bad <= 5:
                print("MISMATCH #%d tool=%s argv=%s" % (
                    idx, recipe["tool"], recipe["argv"]))
                print("  exit sim=%r real=%r; stdout equal=%s; files equal=%s"
                      % (simcode, code, sim.stdout == out, sim.fs == files))
                for name in sorted(set(sim.fs) | set(files)):
                    if sim.fs.get(name) != files.get(name):
                        print("  file %s: sim=%r real=%r" % (
                            name, (sim.fs.get(name) or b"")[:80],
                            (files.get(name) or b"")[:80]))
    print("fidelity: %d scenarios compared (%d with a symbolic link), %d "
          "skipped (not expressible on a real directory), %d mismatches"
          % (done, linked, skipped, bad))
    sys.exit(1 if bad else 0)


if __name__ == "__main__":
    main()
