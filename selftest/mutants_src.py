"""
Hand-written sensitivity mutants (DESIGN.md Appendix C).

Each entry: id -> (property, file under /repo, old text, new text, what).
``selftest/mkmutants.py`` turns them into unified diffs under
``selftest/mutants/`` against the current /repo tree; ``selftest/
sensitivity.py`` applies each diff to a scratch copy and demands that the
property's quick check reports a VIOLATION.
"""

MUTANTS = {}


def mutant(mid, prop, path, old, new, what):
    MUTANTS[mid] = (prop, path, old, new, what)


# ---------------------------------------------------------------- C17
mutant("M17a", "C17", "yamlpath/commands/yaml_set.py",
       """        if exists(backup_file):
            remove(backup_file)
        copy2(args.yaml_file, backup_file)

    # Save the changed file
    if args.yaml_file.strip() == "-":""",
       """        if exists(backup_file):
            remove(backup_file)

    # Save the changed file
    if args.backup:
        save_to_file(args, log, yaml, yaml_data, backup_file)
        copy2(args.yaml_file, backup_file)
        return
    if args.yaml_file.strip() == "-":""",
       "yaml-set takes the backup after saving (the .bak holds the new "
       "content)")

mutant("M17b", "C17", "yamlpath/commands/yaml_merge.py",
       """        if exists(args.output):
            has_errors = True
            log.error("Output file already exists:  {}".format(args.output))""",
       """        if exists(args.output):
            log.warning(
                "Output file already exists:  {}".format(args.output))""",
       "yaml-merge --output onto an existing file only warns")

mutant("M17c", "C17", "yamlpath/commands/yaml_merge.py",
       """    # Output the final document
    if exit_state == 0:
        write_output_document(args, log, yaml_editor, mergers)""",
       """    # Output the final document
    if mergers:
        write_output_document(args, log, yaml_editor, mergers)""",
       "yaml-merge writes its output although the merge failed")

mutant("M17d", "C17", "yamlpath/commands/yaml_set.py",
       """                yaml_dump.close()
                tmphnd.seek(0)
                with open(args.yaml_file, 'wb') as outhnd:
                    copyfileobj(tmphnd, outhnd)
""",
       """                yaml_dump.close()
""",
       "yaml-set's restore-on-assertion path removes the backup but no "
       "longer rewrites the target")

mutant("M17e", "C17", "yamlpath/commands/eyaml_rotate_keys.py",
       """        if file_changed:
            if args.backup:
                log.verbose("Saving a backup of {} to {}."
                            .format(yaml_file, backup_file))
                if exists(backup_file):
                    remove(backup_file)
                copy2(yaml_file, backup_file)

            log.verbose("Writing changed data to {}.".format(yaml_file))
            with open(yaml_file, 'w', encoding='utf-8') as yaml_dump:
                yaml.dump(yaml_data, yaml_dump)""",
       """        if file_changed:
            if args.backup:
                log.verbose("Saving a backup of {} to {}."
                            .format(yaml_file, backup_file))
                if exists(backup_file):
                    remove(backup_file)

            log.verbose("Writing changed data to {}.".format(yaml_file))
            with open(yaml_file, 'w', encoding='utf-8') as yaml_dump:
                if args.backup:
                    copy2(yaml_file, backup_file)
                yaml.dump(yaml_data, yaml_dump)""",
       "eyaml-rotate-keys copies the backup after the target was opened "
       "for writing (truncated)")

mutant("M17f", "C17", "yamlpath/commands/yaml_set.py",
       """    # Check the value(s), if desired
    if args.check:""",
       """    if args.check and args.backup and args.yaml_file != "-":
        # keep a safety copy before the possibly destructive check
        copy2(args.yaml_file, args.yaml_file + ".bak")

    # Check the value(s), if desired
    if args.check:""",
       "yaml-set creates the .bak before --check can fail")

mutant("M17g", "C17", "yamlpath/commands/yaml_set.py",
       """        if exists(backup_file):
            remove(backup_file)
        copy2(args.yaml_file, backup_file)""",
       """        if not exists(backup_file):
            copy2(args.yaml_file, backup_file)""",
       "yaml-set keeps a stale .bak instead of replacing it")

mutant("M17h", "C17", "yamlpath/commands/yaml_merge.py",
       """    document_is_json = (
        docs[0].prepare_for_dump(yaml_editor, args.output)
        is OutputDocTypes.JSON)

    dumps = []
    for doc in docs:
        doc.prepare_for_dump(yaml_editor, args.output)
        dumps.append(doc.data)
""",
       """    document_is_json = False
    dumps = []

    def prepare():
        nonlocal document_is_json
        document_is_json = (
            docs[0].prepare_for_dump(yaml_editor, args.output)
            is OutputDocTypes.JSON)
        for doc in docs:
            doc.prepare_for_dump(yaml_editor, args.output)
            dumps.append(doc.data)
""",
       "placeholder, completed below")
_m = MUTANTS["M17h"]
MUTANTS["M17h"] = (_m[0], _m[1], _m[2] + """
    # Preparing the documents for the requested format can still fail, so
    # the backup is taken only once there really is something to write.
    if args.backup:
        backup_file = args.overwrite + ".bak"
        log.verbose(
            "Saving a backup of {} to {}."
            .format(args.overwrite, backup_file))
        if exists(backup_file):
            remove(backup_file)
        copy2(args.overwrite, backup_file)

    if args.output:
        with open(args.output, 'w', encoding='utf-8') as out_fhnd:
""", _m[3] + """
    if args.backup:
        backup_file = args.overwrite + ".bak"
        log.verbose(
            "Saving a backup of {} to {}."
            .format(args.overwrite, backup_file))
        if exists(backup_file):
            remove(backup_file)
        copy2(args.overwrite, backup_file)

    if not args.output:
        prepare()
    if args.output:
        with open(args.output, 'w', encoding='utf-8') as out_fhnd:
            prepare()
""", "yaml-merge prepares the documents for the output format only after "
     "the output file was opened (truncated) and the backup taken (port of "
     "seeded change S17h to the repaired code)")

# ---------------------------------------------------------------- C16
mutant("M16a", "C16", "yamlpath/commands/yaml_get.py",
       """    except YAMLPathException as ex:
        log.critical(ex, 1)
    except EYAMLCommandException as ex:
        log.critical(ex, 2)""",
       """    except YAMLPathException as ex:
        log.error(ex)
    except EYAMLCommandException as ex:
        log.critical(ex, 2)""",
       "yaml-get logs an unmatched path but exits 0")

mutant("M16b", "C16", "yamlpath/commands/yaml_get.py",
       """            if isinstance(node, (dict, list, CommentedSet)):
                print(json.dumps(Parsers.jsonify_yaml_data(node)))""",
       """            if isinstance(node, (dict, CommentedSet)):
                print(json.dumps(Parsers.jsonify_yaml_data(node)))""",
       "yaml-get prints lists with str() instead of JSON")

mutant("M16c", "C16", "yamlpath/commands/yaml_diff.py",
       """        if args.quiet:
            continue
""",
       """        if args.quiet:
            break
""",
       "yaml-diff -q stops at the first entry (exit 0 when the first entry "
       "is SAME)")

mutant("M16d", "C16", "yamlpath/commands/yaml_validate.py",
       """        proc_state = process_file(log, Parsers.get_yaml_editor(), yaml_file)

        if proc_state != 0:
            exit_state = proc_state""",
       """        exit_state = process_file(log, Parsers.get_yaml_editor(), yaml_file)""",
       "yaml-validate: the last file's state wins")

mutant("M16e", "C16", "yamlpath/common/parsers.py",
       """                if source == "-":
                    yaml_data = parser.load(stdin.read())""",
       """                if source == "-":
                    yaml_data = parser.load(stdin.read(4096))""",
       "Parsers reads at most 4096 characters of a stdin document")

mutant("M16f", "C16", "yamlpath/commands/yaml_merge.py",
       """        and not consumed_stdin
        and not args.nostdin
        and not sys.stdin.isatty()
    ):
        exit_state = merge_docs(log, yaml_editor, merge_config, mergers, "-")""",
       """        and not consumed_stdin
        and not args.nostdin
        and not sys.stdin.isatty()
        and len(args.yaml_files) < 2
    ):
        exit_state = merge_docs(log, yaml_editor, merge_config, mergers, "-")""",
       "yaml-merge ignores implicit stdin when two or more files are given")

mutant("M16g", "C16", "yamlpath/commands/yaml_paths.py",
       """        if print_value:
            # These results can have only one match, but make sure lest the
            # output become messy.
            for node_coordinate in processor.get_nodes(result, mustexist=True):""",
       """        if print_value and entry is not yaml_paths[-1]:
            # These results can have only one match, but make sure lest the
            # output become messy.
            for node_coordinate in processor.get_nodes(result, mustexist=True):""",
       "yaml-paths -L drops the value of the last result")

mutant("M16h", "C16", "yamlpath/commands/yaml_get.py",
       """    in_stream_mode = in_file.strip() == "-" or (
        not in_file and not args.nostdin and not sys.stdin.isatty()
    )""",
       """    in_stream_mode = in_file.strip() == "-" or (
        not in_file and not args.nostdin
    )""",
       "yaml-get with no file reads standard input even when it is a "
       "terminal (blocks for ever)")

# ---------------------------------------------------------------- C19
# (M19a, "seen_anchors keeps only the last anchor", was withdrawn: a second
# rotation of an already re-keyed value always fails to decrypt under the old
# key, so the tool exits 3 and the property -- which speaks of successful
# runs -- is not broken by it.)

mutant("M19b", "C19", "yamlpath/eyaml/eyamlprocessor.py",
       """        return value.replace("\\n", "").replace(" ", "").startswith("ENC[")""",
       """        return value.replace(" ", "").startswith("ENC[")""",
       "is_eyaml_value no longer ignores line breaks")

mutant("M19c", "C19", "yamlpath/commands/eyaml_rotate_keys.py",
       """                processor.publickey = args.newpublickey
                processor.privatekey = args.newprivatekey
""",
       """                processor.privatekey = args.newprivatekey
""",
       "eyaml-rotate-keys re-encrypts with the old public key")

mutant("M19d", "C19", "yamlpath/commands/eyaml_rotate_keys.py",
       """    for yaml_file in args.yaml_files:
        file_changed = False""",
       """    file_changed = False
    for yaml_file in args.yaml_files:""",
       "file_changed is never reset: a secret-less file after a changed "
       "one is rewritten and backed up")

mutant("M19e", "C19", "yamlpath/commands/eyaml_rotate_keys.py",
       """                try:
                    processor.set_eyaml_value(yaml_path, txtval, output=output)
                except EYAMLCommandException as ex:
                    log.error(ex)
                    exit_state = 3
                    continue""",
       """                try:
                    processor.set_eyaml_value(yaml_path, txtval, output=output)
                except EYAMLCommandException as ex:
                    log.error(ex)
                    continue""",
       "an encrypt failure no longer sets the exit status")

# ---------------------------------------------------------------- C03
mutant("M03a", "C03", "yamlpath/processor.py",
       """                for k, val in data.non_merged_items():
                    if val is reference_node:
                        if (is_shared or
                                (data is parent and k == parentref)):""",
       """                for k, val in data.non_merged_items():
                    if val == reference_node and not isinstance(
                            val, (dict, list)):
                        if (is_shared or data is parent):""",
       "recurse compares hash values with == inside the parent")

mutant("M03b", "C03", "yamlpath/common/nodes.py",
       """            elif hasattr(source_node, "anchor") and source_node.anchor.value:
                new_node = new_type(new_value, anchor=source_node.anchor.value)
            else:
                new_node = new_type(new_value)""",
       """            elif (hasattr(source_node, "anchor") and source_node.anchor.value
                    and isinstance(source_node, str)):
                new_node = new_type(new_value, anchor=source_node.anchor.value)
            else:
                new_node = new_type(new_value)""",
       "make_new_node keeps the anchor only when the old node was a string")

mutant("M03c", "C03", "yamlpath/processor.py",
       """                target_idx = parentref
                if (data is parent and isinstance(parentref, int)
                        and parentref < 0):
                    target_idx = len(data) + parentref""",
       """                target_idx = parentref
                if (data is parent and isinstance(parentref, int)
                        and parentref < 0):
                    target_idx = len(data) + parentref + 1""",
       "negative sequence index resolved off by one")

# ---------------------------------------------------------------- C04
mutant("M04a", "C04", "yamlpath/processor.py",
       """        for delete_nc in reversed(delete_nodes):""",
       """        for delete_nc in delete_nodes:""",
       "_delete_nodes walks the gathered nodes forwards")

mutant("M04b", "C04", "yamlpath/processor.py",
       """                if len(parent) > parentref:
                    del parent[parentref]""",
       """                if len(parent) > parentref + 1:
                    del parent[parentref]""",
       "the last element of a sequence is never deleted")

mutant("M04c", "C04", "yamlpath/processor.py",
       """                raise NoDocumentYAMLPathException(
                    "Refusing to delete the entire document!  Ensure the\"""",
       None, "placeholder (replaced below)")
del MUTANTS["M04c"]
mutant("M04c", "C04", "yamlpath/processor.py",
       """            elif isinstance(parent, (CommentedSet, set)):
                parent.discard(parentref)
            else:""",
       """            elif isinstance(parent, (CommentedSet, set)):
                parent.discard(parentref)
            elif parent is None and isinstance(node, (dict, list)):
                node.clear()
            else:""",
       "deleting a container root silently empties it instead of refusing")

# ---------------------------------------------------------------- C09
mutant("M09a", "C09", "yamlpath/processor.py",
       """        updated_coords = [
            nc for nc in lhs_ncs
            if NodeCoords.unwrap_node_coords(nc) in rhs_unwrapped_data]""",
       """        updated_coords = []
        for nc in lhs_ncs:
            if NodeCoords.unwrap_node_coords(nc) in rhs_unwrapped_data:
                updated_coords.append(nc)
            elif isinstance(nc.parent, list) and nc.node in nc.parent:
                nc.parent.remove(nc.node)""",
       "collector intersection prunes non-members from the source list")

mutant("M09b", "C09", "yamlpath/processor.py",
       """                result_nc.node = result_nc.node.copy()""",
       """                result_nc.node = result_nc.node""",
       "collector subtraction edits the document's hash again")

mutant("M09c", "C09", "yamlpath/processor.py",
       """                        for _ in range(len(data) - 1, newidx):
                            next_node = Nodes.build_next_node(""",
       """                        for _ in range(len(data) - 1, newidx + 1):
                            next_node = Nodes.build_next_node(""",
       "list padding runs one element beyond the requested index")

mutant("M09d", "C09", "yamlpath/processor.py",
       """                    if segment_type is PathSegmentTypes.KEY:
                        data[stripped_attrs] = Nodes.build_next_node(
                            yaml_path, depth + 1, value
                        )
                        next_translated_path = (""",
       """                    if segment_type is PathSegmentTypes.KEY:
                        data[stripped_attrs] = Nodes.build_next_node(
                            yaml_path, depth + 1, value
                        )
                        if len(data) > 3 and hasattr(data, "move_to_end"):
                            data.move_to_end(next(iter(data)))
                        next_translated_path = (""",
       "creating a key in a hash with more than three keys moves the first "
       "existing key to the end (existing key order changes)")

mutant("M16i", "C16", "yamlpath/commands/yaml_merge.py",
       """    document_is_json = (
        docs[0].prepare_for_dump(yaml_editor, args.output)
        is OutputDocTypes.JSON)

    dumps = []
    for doc in docs:
        doc.prepare_for_dump(yaml_editor, args.output)
        dumps.append(doc.data)
""",
       """    document_is_json = False
    dumps = []
    for doc in docs:
        document_is_json = (
            doc.prepare_for_dump(yaml_editor, args.output)
            is OutputDocTypes.JSON)
        dumps.append(doc.data)
""",
       "yaml-merge's automatic output format follows the LAST document "
       "instead of the first (port of seeded change S16d to the repaired "
       "write_output_document)")
