#!/usr/bin/env python3
"""
Sensitivity self-test: every committed mutant must be caught.

For each patch under selftest/mutants/*.patch and seeded/*/patch.diff:
copy /repo/yamlpath to a scratch directory outside /repo and /verif, apply the
patch, confirm it still imports, run the property's QUICK check against the
scratch copy (VERIF_REPO=<scratch>), demand exit 1 with a VIOLATION line, then
replay the reported file in a fresh process (must reproduce on the mutant and
must NOT reproduce on the unchanged tree).  The scratch copy is deleted.

usage: sensitivity.py [--only ID[,ID...]] [--jobs N] [--tier quick]
"""
import argparse
import glob
import json
import os
import re
import shutil
import subprocess
import sys
import tempfile
import time
from concurrent.futures import ThreadPoolExecutor

VERIF = os.path.dirname(os.path.dirname(os.path.abspath(__file__)))
REPO = "/repo"
PY = "/venv/bin/python"

CHECKS = {
    "C03": ["checks/edit_session.py", "--property", "C03"],
    "C04": ["checks/edit_session.py", "--property", "C04"],
    "C09": ["checks/edit_session.py", "--property", "C09"],
    "C16": ["checks/c16.py"],
    "C17": ["checks/c17.py"],
    "C19": ["checks/c19.py"],
}


def collect():
    items = []
    for path in sorted(glob.glob(os.path.join(VERIF, "selftest", "mutants",
                                              "*.patch"))):
        base = os.path.basename(path)[:-6]
        mid, prop = base.split("-")
        items.append((mid, prop, path))
    for meta in sorted(glob.glob(os.path.join(VERIF, "seeded", "*",
                                              "meta.json"))):
        with open(meta) as fhnd:
            info = json.load(fhnd)
        sid = os.path.basename(os.path.dirname(meta))
        if info.get("status") in ("obsolete", "out-of-scope", "not-caught"):
            # obsolete: made harmless by a later repair of /repo;
            # out-of-scope: breaks something no claimed property states
            # not-caught: a recorded miss (reason in its status_note)
            # (each has a status_note; DESIGN.md section 11 lists them)
            continue
        items.append((sid, info.get("check_property") or info["property"],
                      os.path.join(os.path.dirname(meta), "patch.diff")))
    return items


def run_one(item, tier, workers):
    mid, prop, patch = item
    scratch = tempfile.mkdtemp(prefix="verif-mut-%s-" % mid, dir="/tmp")
    result = {"id": mid, "property": prop, "caught": False, "note": ""}
    start = time.time()
    try:
        shutil.copytree(os.path.join(REPO, "yamlpath"),
                        os.path.join(scratch, "yamlpath"))
        proc = subprocess.run(["patch", "-p1", "-s", "-i", patch],
                              cwd=scratch, capture_output=True, text=True)
        if proc.returncode != 0:
            result["note"] = "patch does not apply: " + proc.stdout[-200:]
            return result
        env = dict(os.environ, VERIF_REPO=scratch, VERIF_TIER=tier,
                   VERIF_WORKERS=str(workers))
        env.pop("VERIF_IGNORE_KNOWN", None)
        replays = os.path.join(scratch, "replays-out")
        cmd = [PY] + CHECKS[prop] + ["--tier", tier, "--no-evidence"]
        proc = subprocess.run(cmd, cwd=VERIF, env=env, capture_output=True,
                              text=True, timeout=1800)
        lines = [ln for ln in proc.stdout.splitlines()
                 if ln.startswith("VIOLATION property=%s " % prop)]
        if proc.returncode == 2 or "HARNESS-ERROR" in proc.stdout:
            result["note"] = "harness error: " + proc.stdout[-300:]
            return result
        if proc.returncode != 1 or not lines:
            result["note"] = "not caught (exit %d)" % proc.returncode
            return result
        match = re.search(r"replay=(\S+)", lines[0])
        rpath = match.group(1)
        classes = [ln.strip() for ln in proc.stdout.splitlines()
                   if ln.strip().startswith("class=")]
        result["class"] = classes[0][:160] if classes else ""
        # replay on the mutant: must reproduce
        rcmd = [PY] + CHECKS[prop] + ["--replay", rpath]
        again = subprocess.run(rcmd, cwd=VERIF, env=env, capture_output=True,
                               text=True, timeout=600)
        on_mutant = again.returncode == 1
        # replay on the unchanged tree: must not reproduce
        env2 = dict(os.environ)
        env2.pop("VERIF_REPO", None)
        clean = subprocess.run(rcmd, cwd=VERIF, env=env2,
                               capture_output=True, text=True, timeout=600)
        on_clean = clean.returncode == 1
        result["caught"] = True
        result["replay_reproduces_on_mutant"] = on_mutant
        result["replay_silent_on_unchanged_tree"] = not on_clean
        for line in lines:
            found = re.search(r"replay=(\S+)", line)
            if found and os.path.dirname(found.group(1)).endswith("replays"):
                try:
                    os.remove(found.group(1))
                except OSError:
                    pass
        del replays
        return result
    except subprocess.TimeoutExpired:
        result["note"] = "timeout"
        return result
    finally:
        result["wall_s"] = round(time.time() - start, 1)
        shutil.rmtree(scratch, ignore_errors=True)


def main():
    parser = argparse.ArgumentParser()
    parser.add_argument("--only")
    parser.add_argument("--jobs", type=int, default=4)
    parser.add_argument("--tier", default="quick")
    args = parser.parse_args()
    items = collect()
    if args.only:
        want = set(args.only.split(","))
        items = [it for it in items if it[0] in want or it[1] in want]
    workers = max(1, 16 // args.jobs)
    with ThreadPoolExecutor(max_workers=args.jobs) as pool:
        results = list(pool.map(lambda it: run_one(it, args.tier, workers),
                                items))
    missed = 0
    for res in results:
        status = "CAUGHT" if res["caught"] else "MISSED"
        extra = ""
        if res["caught"]:
            if not res.get("replay_reproduces_on_mutant"):
                extra += " [replay did NOT reproduce on mutant]"
                missed += 1
            if not res.get("replay_silent_on_unchanged_tree"):
                extra += " [replay ALSO fails on unchanged tree]"
                missed += 1
        else:
            missed += 1
        print("%-7s %-10s %s %5.1fs %s%s" % (
            status, res["id"], res["property"], res.get("wall_s", 0),
            res.get("class") or res.get("note", ""), extra))
    out = os.path.join(VERIF, "selftest", "sensitivity_last.json")
    if args.only:
        # a partial run must not overwrite the record of the full one
        out = os.devnull
    with open(out, "w") as fhnd:
        json.dump({"results": results, "missed": missed,
                   "repo_head": subprocess.run(
                       ["git", "-C", REPO, "rev-parse", "HEAD"],
                       capture_output=True, text=True).stdout.strip()},
                  fhnd, indent=1)
    print("%d mutants, %d not caught or not replayable" % (len(results),
                                                           missed))
    sys.exit(1 if missed else 0)


if __name__ == "__main__":
    main()
