#!/usr/bin/env python3
"""Render selftest/mutants_src.py as unified diffs against /repo."""
import difflib
import os
import sys

HERE = os.path.dirname(os.path.abspath(__file__))
sys.path.insert(0, HERE)
from mutants_src import MUTANTS  # noqa: E402

REPO = os.environ.get("VERIF_REPO", "/repo")
OUT = os.path.join(HERE, "mutants")
os.makedirs(OUT, exist_ok=True)
bad = 0
for mid, (prop, path, old, new, what) in sorted(MUTANTS.items()):
    src = open(os.path.join(REPO, path), encoding="utf-8", newline="").read()
    if "\r\n" in src:          # some files in the repository use CRLF
        old = old.replace("\n", "\r\n")
        new = new.replace("\n", "\r\n")
    if src.count(old) != 1:
        print("!! %s: anchor text found %d times in %s" % (mid, src.count(old), path))
        bad += 1
        continue
    dst = src.replace(old, new)
    diff = "".join(difflib.unified_diff(
        src.splitlines(True), dst.splitlines(True),
        "a/" + path, "b/" + path))
    with open(os.path.join(OUT, "%s-%s.patch" % (mid, prop)), "w",
              newline="") as fh:
        fh.write("# %s (%s): %s\n" % (mid, prop, what))
        fh.write(diff)
print("wrote %d mutants, %d failed" % (len(MUTANTS) - bad, bad))
sys.exit(1 if bad else 0)
