"""
The plain-data reference model for edit sessions (C03 / C04 / C09).

A ``Tree`` mirrors a live ruamel document as ordinary Python objects:

  MNode(kind="m", items=[(typed_key, MNode), ...])      order kept
  MNode(kind="l", items=[MNode, ...])
  MNode(kind="S", value=frozenset(typed members))
  MNode(kind="s", value=typed scalar, anchor=name|None)

An anchored scalar and all of its aliases are ONE MNode object placed at
several positions, so "every alias of a matched anchored node holds the new
value" is what assignment to that object means.  Un-anchored scalars get one
MNode per position: object identity in CPython (interned ints, one-character
strings, True/False/None) carries no meaning in the model.

``canon(tree)`` produces exactly what ``snapshot.full(live_document)``
produces, so model and implementation are compared by ``==``.
"""
from ruamel.yaml.comments import CommentedMap, CommentedSet

from sim import snapshot


class MNode:
    __slots__ = ("kind", "items", "value", "anchor")

    def __init__(self, kind, items=None, value=None, anchor=None):
        self.kind = kind
        self.items = items
        self.value = value
        self.anchor = anchor

    def clone(self, memo=None):
        memo = {} if memo is None else memo
        if id(self) in memo:
            return memo[id(self)]
        new = MNode(self.kind, None, self.value, self.anchor)
        memo[id(self)] = new
        if self.kind == "m":
            new.items = [(k, v.clone(memo)) for k, v in self.items]
        elif self.kind == "l":
            new.items = [v.clone(memo) for v in self.items]
        return new


def build(doc):
    """Model of a live document (sharing mirrors anchored-node sharing)."""
    memo = {}

    def conv(node):
        name = snapshot.node_anchor(node)
        if name is not None and id(node) in memo:
            return memo[id(node)]
        if isinstance(node, (CommentedSet, set, frozenset)):
            out = MNode("S", value=frozenset(snapshot.typed(e)
                                             for e in node))
        elif isinstance(node, dict):
            out = MNode("m", items=[], anchor=name)
            if name is not None:
                memo[id(node)] = out
            items = node.non_merged_items() \
                if isinstance(node, CommentedMap) else node.items()
            for key, val in items:
                out.items.append((snapshot.typed(key), conv(val)))
            return out
        elif isinstance(node, (list, tuple)):
            out = MNode("l", items=[], anchor=name)
            if name is not None:
                memo[id(node)] = out
            for val in node:
                out.items.append(conv(val))
            return out
        else:
            out = MNode("s", value=snapshot.typed_scalar(node), anchor=name)
        if name is not None:
            memo[id(node)] = out
        return out
    return conv(doc)


def typed_of(node):
    if node.kind == "m":
        return ("m", tuple((k, typed_of(v)) for k, v in node.items))
    if node.kind == "l":
        return ("l", tuple(typed_of(v) for v in node.items))
    if node.kind == "S":
        return ("S", tuple(sorted(node.value, key=repr)))
    return node.value


def walk(tree):
    """Yield (position, MNode) in document order (aliases listed)."""
    stack = [((), tree)]
    while stack:
        pos, node = stack.pop()
        yield pos, node
        if node.kind == "m":
            for key, val in reversed(node.items):
                stack.append((pos + (("k", key),), val))
        elif node.kind == "l":
            for idx in reversed(range(len(node.items))):
                stack.append((pos + (("i", idx),), node.items[idx]))


def canon(tree):
    """Same shape as snapshot.full(document)."""
    anchors = {}
    by_id = {}
    for pos, node in walk(tree):
        if node.anchor is not None:
            anchors[pos] = node.anchor
            by_id.setdefault(id(node), []).append(pos)
    groups = sorted((tuple(sorted(v, key=repr)) for v in by_id.values()
                     if len(v) > 1), key=repr)
    return (typed_of(tree), tuple(sorted(anchors.items(), key=repr)),
            tuple(groups))


def at(tree, pos):
    node = tree
    for kind, ref in pos:
        if kind == "i":
            if node.kind != "l":
                raise KeyError(pos)
            node = node.items[ref]
        else:
            if node.kind != "m":
                raise KeyError(pos)
            for key, val in node.items:
                if key == ref:
                    node = val
                    break
            else:
                raise KeyError(pos)
    return node


def exists(tree, pos):
    try:
        at(tree, pos)
        return True
    except (KeyError, IndexError):
        return False


def apply_set(tree, positions, new_typed):
    """C03's model of a set: matched nodes (hence their aliases) change."""
    for pos in positions:
        node = at(tree, pos)
        if node.kind != "s":
            raise ValueError("set on a non-scalar position")
        node.value = new_typed
        if new_typed == ("null", None):
            # YAML data cannot carry an anchor on a null (ruamel represents
            # null as Python None): every alias holds null, the name is gone
            node.anchor = None


def apply_delete(tree, positions):
    """
    C04's model of a delete: exactly the matched positions go away.
    Duplicates collapse; a match inside another match is subsumed.
    """
    uniq = sorted(set(positions), key=lambda p: (len(p), repr(p)))
    kept = []
    for pos in uniq:
        if any(pos[:len(k)] == k for k in kept):
            continue
        kept.append(pos)
    # group by parent, delete sequence slots from the highest index down
    by_parent = {}
    for pos in kept:
        by_parent.setdefault(pos[:-1], []).append(pos[-1])
    # resolve every parent before anything moves
    resolved = [(at(tree, parent_pos), refs)
                for parent_pos, refs in by_parent.items()]
    for parent, refs in resolved:
        if parent.kind == "l":
            for _k, idx in sorted(refs, key=lambda r: -r[1]):
                del parent.items[idx]
        elif parent.kind == "m":
            gone = {ref for _k, ref in refs}
            parent.items = [(k, v) for k, v in parent.items if k not in gone]
        elif parent.kind == "S":
            parent.value = frozenset(
                e for e in parent.value if e not in {r for _k, r in refs})
    return kept


def diff(a, b, limit=6):
    """Human-readable first differences between two canon() values."""
    out = []

    def rec(x, y, path):
        if len(out) >= limit:
            return
        if x == y:
            return
        if x[0] != y[0] or x[0] not in ("m", "l"):
            out.append("%s: %r != %r" % (path or "/", x, y))
            return
        if x[0] == "l":
            if len(x[1]) != len(y[1]):
                out.append("%s: list length %d != %d" % (
                    path or "/", len(x[1]), len(y[1])))
            for i, (p, q) in enumerate(zip(x[1], y[1])):
                rec(p, q, "%s[%d]" % (path, i))
        else:
            kx = [k for k, _ in x[1]]
            ky = [k for k, _ in y[1]]
            if kx != ky:
                out.append("%s: keys %r != %r" % (path or "/", kx, ky))
                return
            for (k, p), (_k, q) in zip(x[1], y[1]):
                rec(p, q, "%s/%s" % (path, k[1]))
    rec(a[0], b[0], "")
    if a[1] != b[1]:
        out.append("anchors: %r != %r" % (a[1], b[1]))
    if a[2] != b[2]:
        out.append("alias groups: %r != %r" % (a[2], b[2]))
    return out
