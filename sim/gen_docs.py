"""
Seeded workload generators: documents (as a small JSON-able model), their
YAML/JSON text, and YAML Paths drawn against a document.

Model nodes (plain dicts so that replay files can hold them):

  {"t": "s", "v": <str|int|float|bool|None>, "q": <"", '"', "'", ">", "|">,
   "a": <anchor name or None>}
  {"t": "*", "n": <anchor name>}                      alias of a scalar anchor
  {"t": "m", "i": [[<key scalar node>, <node>], ...], "a": <anchor or None>}
  {"t": "l", "i": [<node>, ...]}
  {"t": "S", "i": [<scalar node>, ...]}               !!set

The alphabet is deliberately tiny so equal values, values spelled like keys
and CPython-interned objects collide often.
"""
import json
import re

KEYS = ["a", "b", "c", "k1", "1", "x.y", "a b", "x"]
STRS = ["a", "b", "x", "x y", "", "k1", "1", "c"]
NONASCII = ["\u00e9", "na\u00efve"]
INTS = [1, 1, 2, 0]
FLOATS = [1.5]
ANCHORS = ["A", "B", "anc"]
SPECIAL_KEYS = ["a: b", "h#h", 'q"q', " lead", "back\\slash", "it's", "[br]",
                "{cu}", "pct%", "dollar$", "star*", "amp&er", "e=q"]
SPECIAL_STRS = ["nel\u0085x", "del\u007fx", "a: b", "#hash", " lead", 'q"q', "back\\slash", "trail ",
                "it's", "- dash", "? q", "@at", "`tick", "!bang", "%pct",
                "x: y: z", "\u00e9\u00e8", "tab\there"]

_PLAIN_OK = re.compile(
    r"^[A-Za-z\u00e9\u00ef_][A-Za-z0-9_\u00e9\u00ef./-]*"
    r"( [A-Za-z0-9_\u00e9\u00ef./-]+)*$")
_RESERVED = {"true", "false", "null", "yes", "no", "on", "off", "y", "n",
             "True", "False", "Null", "NULL", "TRUE", "FALSE", "~"}


# ----------------------------------------------------------------------
# construction helpers
# ----------------------------------------------------------------------
def S(value, quote="", anchor=None):  # noqa: N802
    return {"t": "s", "v": value, "q": quote, "a": anchor}


def M(items, anchor=None):  # noqa: N802
    return {"t": "m", "i": [[k if isinstance(k, dict) else S(k), v]
                            for k, v in items], "a": anchor}


def L(items):  # noqa: N802
    return {"t": "l", "i": list(items)}


def A(name):  # noqa: N802
    return {"t": "*", "n": name}


# ----------------------------------------------------------------------
# random documents
# ----------------------------------------------------------------------
class DocGen:
    """Recursive document generator driven by one ``random.Random``."""

    def __init__(self, rng, *, sets=True, anchors=True, nonascii=False,
                 max_nodes=20, max_depth=4, floats=True, multiline=False,
                 empty_containers=True, mergekeys=False, twins=0.0,
                 special=False, intkeys=False, rich_merge_sources=False):
        self.rng = rng
        self.sets = sets
        self.anchors = anchors
        self.nonascii = nonascii
        self.max_nodes = max_nodes
        self.max_depth = max_depth
        self.floats = floats
        self.multiline = multiline
        self.empty_containers = empty_containers
        self.mergekeys = mergekeys
        self.twins = twins
        self.special = special
        self.intkeys = intkeys
        # merge-key sources may hold anchored scalars, sets and empty
        # containers (read-only consumers; the edit-session model wants
        # plain ones)
        self.rich_merge_sources = rich_merge_sources
        self.budget = max_nodes
        self.defined = []       # scalar anchors defined so far (doc order)
        self.map_anchors = []   # map anchors (merge-key sources)
        # with merge keys, some anchor names are spelled like mapping keys
        self.free_anchors = ["c", "A", "k1", "B"] if mergekeys \
            else list(ANCHORS)

    def scalar(self, allow_anchor=True, strings_only=False):
        rng = self.rng
        roll = rng.random()
        if strings_only or roll < 0.55:
            pool = STRS + (NONASCII if self.nonascii else [])
            value = rng.choice(pool)
            if self.special and rng.random() < 0.35:
                value = rng.choice(SPECIAL_STRS)
        elif roll < 0.75:
            value = rng.choice(INTS)
        elif roll < 0.83:
            value = rng.choice([True, False])
        elif roll < 0.90:
            value = None
        elif self.floats:
            value = rng.choice(FLOATS)
        else:
            value = rng.choice(INTS)
        quote = ""
        if isinstance(value, str) and rng.random() < 0.2:
            quote = rng.choice(['"', "'"])
        if (self.multiline and isinstance(value, str) and value.strip()
                and rng.random() < 0.1):
            quote = rng.choice([">", "|"])
            if rng.random() < 0.5:
                # "clip" chomping: the value keeps one trailing line break
                value = value + "\n"
            if quote == "|" and rng.random() < 0.4:
                value = "first line\n" + value
        node = S(value, quote)
        if (allow_anchor and self.anchors and self.free_anchors
                and value is not None and rng.random() < 0.18):
            name = self.free_anchors.pop(0)
            node["a"] = name
            self.defined.append(name)
        return node

    def node(self, depth=0):
        rng = self.rng
        self.budget -= 1
        if self.anchors and self.defined and rng.random() < 0.15:
            return A(rng.choice(self.defined))
        if depth >= self.max_depth or self.budget <= 0 or rng.random() < 0.5:
            return self.scalar()
        roll = rng.random()
        if roll < 0.45:
            return self.mapping(depth)
        if roll < 0.9 or not self.sets:
            return self.sequence(depth)
        return self.set_()

    def mapping(self, depth):
        rng = self.rng
        count = rng.choice([0, 1, 2, 2, 3, 3, 4]) if self.empty_containers \
            else rng.choice([1, 2, 2, 3, 3, 4])
        keys = rng.sample(KEYS, min(count, len(KEYS)))
        if self.special:
            keys = [rng.choice(SPECIAL_KEYS) if rng.random() < 0.3 else k
                    for k in keys]
            keys = list(dict.fromkeys(keys))
        if self.intkeys and rng.random() < 0.5:
            # integer (also negative) mapping keys, never next to a string
            # key of the same spelling
            spelled = {str(k) for k in keys}
            for pos in range(len(keys)):
                cand = rng.choice([-1, 0, 7, -20])
                if rng.random() < 0.35 and str(cand) not in spelled:
                    spelled.add(str(cand))
                    keys[pos] = cand
        merge = None
        if self.mergekeys and depth > 0 and self.map_anchors \
                and rng.random() < 0.35:
            # decided before the children exist: the anchor is defined
            # earlier in document order
            merge = [rng.choice(self.map_anchors)]
        items = []
        for key in keys:
            items.append([S(key), self.node(depth + 1)])
        node = {"t": "m", "i": items, "a": None}
        if merge:
            node["merge"] = merge
        if self.mergekeys and depth > 0 and items and self.free_anchors \
                and rng.random() < (0.45 if self.rich_merge_sources
                                    else 0.2) \
                and all((v["t"] == "s" and not v["a"])
                        or (self.rich_merge_sources
                            and (v["t"] in ("s", "S") or not v.get("i")))
                        for _, v in items):
            name = self.free_anchors.pop(0)
            node["a"] = name
            self.map_anchors.append(name)
            if self.rich_merge_sources and rng.random() < 0.7:
                # a pair that consumers receive only through the merge and
                # whose value is not a plain JSON scalar
                used = {k["v"] for k, _v in items}
                extra = rng.choice(["flag", "members", "empty"])
                if extra not in used:
                    if extra == "flag":
                        val = S(rng.choice([True, False]),
                                anchor="F" + name)
                    elif extra == "members":
                        val = self.set_()
                    else:
                        val = rng.choice([M([]), L([])])
                    items.append([S(extra), val])
        return node

    def sequence(self, depth):
        rng = self.rng
        count = rng.choice([0, 1, 2, 3, 3, 4]) if self.empty_containers \
            else rng.choice([1, 2, 3, 3, 4])
        if rng.random() < 0.25 and depth + 1 < self.max_depth:
            # Array-of-Hashes
            items = []
            for _ in range(max(1, count)):
                self.budget -= 1
                items.append(self.mapping(depth + 1))
            return L(items)
        return L([self.node(depth + 1) for _ in range(count)])

    def set_(self):
        rng = self.rng
        count = rng.choice([1, 2, 3])
        vals = rng.sample(["a", "b", "x", "k1", "c"], count)
        return {"t": "S", "i": [S(v) for v in vals]}

    def document(self, root=None):
        rng = self.rng
        root = root or rng.choice(["m", "m", "m", "l"])
        self.budget = self.max_nodes
        if root == "m":
            doc = self.mapping(0)
            while not doc["i"]:
                doc = self.mapping(0)
        else:
            doc = self.sequence(0)
            while not doc["i"]:
                doc = self.sequence(0)
        if self.twins and rng.random() < self.twins:
            self._add_twin(doc)
        return doc

    def _add_twin(self, doc):
        """A second, distinct container with equal content (common in real
        files: duplicated records, identical blue/green sections)."""
        import copy
        cands = [(s, n) for s, n in positions(doc)
                 if s and n["t"] in ("m", "l") and n["i"]
                 and not n.get("a") and not n.get("merge")
                 and not any(x["t"] == "*" or x.get("a") or x.get("merge")
                             for _p, x in positions(n))]
        if not cands:
            return
        _segs, node = self.rng.choice(cands)
        twin = copy.deepcopy(node)
        if doc["t"] == "m":
            used = {k["v"] for k, _v in doc["i"]}
            key = next((k for k in ("twin", "twin2") if k not in used), None)
            if key:
                doc["i"].append([S(key), twin])
        else:
            doc["i"].append(twin)


# ----------------------------------------------------------------------
# model -> plain data (aliases resolved; sets -> frozenset-like sorted list)
# ----------------------------------------------------------------------
def anchors_of(doc):
    """Map anchor name -> defining node (document order; last wins)."""
    table = {}

    def walk(node):
        kind = node["t"]
        if kind == "s":
            if node.get("a"):
                table[node["a"]] = node
        elif kind == "m":
            if node.get("a"):
                table[node["a"]] = node
            for key, val in node["i"]:
                walk(key)
                walk(val)
        elif kind in ("l", "S"):
            for item in node["i"]:
                walk(item)
    walk(doc)
    return table


def to_plain(doc, table=None):
    """Plain Python data (dict/list/tuple-for-set/scalars)."""
    table = anchors_of(doc) if table is None else table

    def conv(node):
        kind = node["t"]
        if kind == "s":
            return node["v"]
        if kind == "*":
            return conv(table[node["n"]])
        if kind == "m":
            return {conv(k): conv(v) for k, v in node["i"]}
        if kind == "l":
            return [conv(i) for i in node["i"]]
        if kind == "S":
            return {"!!set": sorted(conv(i) for i in node["i"])}
        raise ValueError(kind)
    return conv(doc)


def count_nodes(doc):
    kind = doc["t"]
    if kind in ("s", "*"):
        return 1
    if kind == "m":
        return 1 + sum(count_nodes(v) for _, v in doc["i"])
    return 1 + sum(count_nodes(i) for i in doc["i"])


# ----------------------------------------------------------------------
# model -> text
# ----------------------------------------------------------------------
def scalar_text(node, flow=False):
    if node.get("raw") is not None:
        # emitted verbatim (timestamps and other plain scalars whose type the
        # loader infers from their spelling)
        return ("&%s " % node["a"] if node.get("a") else "") + node["raw"]
    value = node["v"]
    quote = node.get("q") or ""
    if value is None:
        text = "null"
    elif value is True:
        text = "true"
    elif value is False:
        text = "false"
    elif isinstance(value, (int, float)):
        text = repr(value)
    else:
        if any(ord(ch) < 0x20 or 0x7f <= ord(ch) <= 0x9f for ch in value):
            # control characters reach a document only through escapes
            text = json.dumps(value)
        elif quote == "'":
            text = "'" + value.replace("'", "''") + "'"
        elif quote == '"' or not _PLAIN_OK.match(value) \
                or value in _RESERVED:
            text = json.dumps(value, ensure_ascii=False)
        else:
            text = value
    if node.get("a"):
        text = "&%s %s" % (node["a"], text)
    return text


def _block_scalar_lines(node, indent):
    """Folded / literal block scalar body (value has no blank lines)."""
    value = node["v"]
    head = node["q"] + ("" if value.endswith("\n") else "-")
    if node.get("a"):
        head = "&%s %s" % (node["a"], head)
    pad = " " * indent
    if node["q"] == ">":
        body = value.rstrip("\n").split(" ")
    else:
        body = value.rstrip("\n").split("\n")
    return head, [pad + line for line in body]


def _is_block_scalar(node):
    if not (node["t"] == "s" and node.get("q") in (">", "|")
            and isinstance(node["v"], str) and node.get("raw") is None):
        return False
    value = node["v"]
    if any(ord(ch) < 0x20 and ch != "\n" or 0x7f <= ord(ch) <= 0x9f
           for ch in value):
        return False
    # A block scalar whose first line is blank or indented needs an explicit
    # indentation indicator, which ruamel.yaml 0.17.21 writes wrongly (">4"
    # for an indent of 2): its own dump of such a document does not load.
    body = value.rstrip("\n")
    if not body or body[0] in " \n" or body[-1] == " " or "  " in body \
            or "\n " in body or " \n" in body:
        return False
    return True


def block_lines(node, indent=0):
    """Block-style YAML lines for a container node."""
    pad = " " * indent
    kind = node["t"]
    out = []
    if kind == "m":
        for name in node.get("merge") or []:
            out.append("%s<<: *%s" % (pad, name))
        for key, val in node["i"]:
            ktxt = scalar_text(key)
            vkind = val["t"]
            if vkind == "*":
                out.append("%s%s: *%s" % (pad, ktxt, val["n"]))
            elif _is_block_scalar(val):
                head, body = _block_scalar_lines(val, indent + 2)
                out.append("%s%s: %s" % (pad, ktxt, head))
                out.extend(body)
            elif vkind == "s":
                out.append("%s%s: %s" % (pad, ktxt, scalar_text(val)))
            elif not val["i"] and not val.get("merge"):
                out.append("%s%s: %s" % (
                    pad, ktxt, {"m": "{}", "l": "[]", "S": "!!set {}"}[vkind]))
            elif vkind == "S":
                out.append("%s%s: !!set" % (pad, ktxt))
                out.extend(block_lines(val, indent + 2))
            elif vkind == "m" and val.get("a"):
                out.append("%s%s: &%s" % (pad, ktxt, val["a"]))
                out.extend(block_lines(val, indent + 2))
            else:
                out.append("%s%s:" % (pad, ktxt))
                out.extend(block_lines(val, indent + 2))
    elif kind == "l":
        for val in node["i"]:
            vkind = val["t"]
            if vkind == "*":
                out.append("%s- *%s" % (pad, val["n"]))
            elif _is_block_scalar(val):
                head, body = _block_scalar_lines(val, indent + 2)
                out.append("%s- %s" % (pad, head))
                out.extend(body)
            elif vkind == "s":
                out.append("%s- %s" % (pad, scalar_text(val)))
            elif not val["i"] and not val.get("merge"):
                out.append("%s- %s" % (
                    pad, {"m": "{}", "l": "[]", "S": "!!set {}"}[vkind]))
            elif vkind == "S":
                out.append("%s- !!set" % pad)
                out.extend(block_lines(val, indent + 2))
            elif vkind == "m" and val.get("a"):
                out.append("%s- &%s" % (pad, val["a"]))
                out.extend(block_lines(val, indent + 2))
            else:
                sub = block_lines(val, indent + 2)
                sub[0] = pad + "- " + sub[0][indent + 2:]
                out.extend(sub)
    elif kind == "S":
        for val in node["i"]:
            out.append("%s? %s" % (pad, scalar_text(val)))
    else:
        raise ValueError(kind)
    return out


def flow_text(node):
    kind = node["t"]
    if kind == "s":
        return scalar_text(dict(node, q=node["q"] if node["q"] in ('"', "'")
                                else ""), flow=True)
    if kind == "*":
        return "*" + node["n"]
    if kind == "m":
        parts = ["<<: *%s" % name for name in node.get("merge") or []]
        parts += ["%s: %s" % (flow_text(k), flow_text(v))
                  for k, v in node["i"]]
        return ("&%s " % node["a"] if node.get("a") else "") + \
            "{" + ", ".join(parts) + "}"
    if kind == "l":
        return "[" + ", ".join(flow_text(i) for i in node["i"]) + "]"
    if kind == "S":
        return "!!set {" + ", ".join(
            "%s: null" % flow_text(i) for i in node["i"]) + "}"
    raise ValueError(kind)


def to_yaml(doc, style="block", start=True, trailing_newline=True,
            indent_all=0):
    """Serialise a model document as YAML text."""
    if indent_all and style == "block" and doc["t"] in ("m", "l") \
            and doc["i"]:
        # a uniformly indented top-level collection is legal YAML
        body = "\n".join(block_lines(doc, indent_all))
        return ("---\n" if start else "") + body + \
            ("\n" if trailing_newline else "")
    if style == "flow":
        text = ("--- " if start else "") + flow_text(doc)
    elif doc["t"] in ("s", "*"):
        text = ("--- " if start else "") + scalar_text(doc)
    elif not doc["i"]:
        text = ("--- " if start else "") + {"m": "{}", "l": "[]",
                                            "S": "!!set {}"}[doc["t"]]
    else:
        head = ""
        if doc["t"] == "S":
            head = "--- !!set\n"
        elif start:
            head = "---\n"
        text = head + "\n".join(block_lines(doc, 0))
    return text + ("\n" if trailing_newline else "")


_SEQ_SCALAR = re.compile(r"^ *- (?![-\[{&*!]|.*: )\S")
_BLOCK_HEAD = re.compile(r"(^|[:\-] )(&\S+ )?[|>][-+]?$")


def decorate(text, rng, comments=False):
    """
    Presentation that real files have and ruamel.yaml round-trips: full-line
    comments and blank lines between entries, keep-chomped block scalars
    with trailing blank lines.  ``comments`` is off by default: ruamel.yaml
    0.17.21 itself mislays comments and blank lines when the node they hang
    on gains or loses children (``del d['x']['x']`` below ``x:`` + blank
    line dumps an unloadable file with no yamlpath code involved), so an
    edit next to a comment cannot be judged without an oracle for ruamel.
    Without it only ``|`` -> ``|+`` plus a trailing blank line is applied.  Purely textual; the data (as
    any YAML loader sees it) changes only where a ``|`` becomes ``|+``.
    """
    lines = text.split("\n")
    tail = lines.pop() if lines and lines[-1] == "" else None
    out = []
    body_indent = None      # inside a block scalar body when not None
    head_idx = None
    body_was = None
    for num, line in enumerate(lines):
        indent = len(line) - len(line.lstrip(" "))
        if body_indent is not None:
            if line.strip() == "" or indent >= body_indent:
                out.append(line)
                continue
            # the body ended on the previous line
            body_was = out[head_idx]
            if out[head_idx].endswith("|") and rng.random() < 0.4:
                out[head_idx] += "+"
                out.append("")
            body_indent = None
        if num == 0 and line.startswith("---"):
            out.append(line)
            continue
        if comments and out and out[-1] != "" and rng.random() < 0.25 \
                and line.lstrip(" ").startswith("- ") and num > 1 \
                and _SEQ_SCALAR.match(lines[num - 1] if body_was is None
                                      else body_was) \
                and len(lines[num - 1]) - len(lines[num - 1].lstrip(" ")) \
                >= indent:
            # between two elements of a block sequence, after a scalar one
            if rng.random() < 0.6:
                out.append("")
            if rng.random() < 0.6:
                out.append(" " * indent + "# " + rng.choice(
                    ["next section", "see above", "TODO: tidy", "---"]))
        body_was = None
        if _BLOCK_HEAD.search(line):
            out.append(line)
            head_idx = len(out) - 1
            body_indent = indent + 1
            continue
        out.append(line)
    if body_indent is not None and out[head_idx].endswith("|") \
            and rng.random() < 0.4:
        out[head_idx] += "+"
        out.append("")
    if tail is not None:
        out.append(tail)
    return "\n".join(out)


def to_json(doc, indent=None):
    """Serialise as JSON (aliases resolved; sets become key->null maps)."""
    def conv(data):
        if isinstance(data, dict):
            if list(data.keys()) == ["!!set"]:
                return {str(k): None for k in data["!!set"]}
            return {_json_key(k): conv(v) for k, v in data.items()}
        if isinstance(data, list):
            return [conv(i) for i in data]
        return data
    text = json.dumps(conv(to_plain(doc)), indent=indent, ensure_ascii=False)
    if any(0x7f <= ord(ch) <= 0x9f for ch in text):
        text = json.dumps(conv(to_plain(doc)), indent=indent)
    return text + "\n"


def _json_key(key):
    if key is None:
        return "null"
    if key is True:
        return "true"
    if key is False:
        return "false"
    return str(key)


# ----------------------------------------------------------------------
# positions and paths
# ----------------------------------------------------------------------
def positions(doc):
    """
    Every addressable position as (segments, node); a segment is
    ("k", key-value) or ("i", index).  Aliases are listed, not followed.
    """
    out = []

    def walk(node, segs):
        out.append((segs, node))
        kind = node["t"]
        if kind == "m":
            for key, val in node["i"]:
                walk(val, segs + (("k", key["v"]),))
        elif kind == "l":
            for idx, val in enumerate(node["i"]):
                walk(val, segs + (("i", idx),))
    walk(doc, ())
    return out


def escape_key(key, sep, quote=None):
    if isinstance(key, int) and not isinstance(key, bool):
        return str(key)         # "-1" addresses the integer key -1
    text = str(key)
    if "*" in text and not quote:
        # a backslash does not stop an asterisk from being expanded as a
        # wildcard: demarcation is the only spelling of a literal "*"
        quote = '"'
    if quote and any(ch in "\\.[]{}()&*!=~^$<>+-%\"' #" or ch == sep
                     for ch in text):
        # the other way to write a literal special character: demarcation
        # (either kind of quotation mark opens a demarcation, so both are
        # escaped inside one)
        body = text.replace("\\", "\\\\").replace(
            '"', '\\"').replace("'", "\\'")
        return quote + body + quote
    out = ""
    for char in text:
        if char in "\\.[]{}()&*!=~^$<>+-%\"' #" or char == sep:
            out += "\\" + char
        else:
            out += char
    return out


def render_path(segs, sep="."):
    """Concrete key/index path in dot or slash notation."""
    if sep == "/":
        parts = []
        for kind, val in segs:
            parts.append("[%d]" % val if kind == "i" else escape_key(val, "/"))
        return "/" + "/".join(parts)
    text = ""
    for kind, val in segs:
        if kind == "i":
            text += "[%d]" % val
        else:
            text += ("." if text else "") + escape_key(val, ".")
    return text
