"""
In-process stand-in for the hiera-eyaml executable.

Substituted at the ``subprocess.run`` / ``shutil.which`` / ``os.access`` seam
of ``yamlpath/eyaml/eyamlprocessor.py``.  It accepts exactly the command line
the real tools build::

    <binary> decrypt|encrypt --quiet --stdin [--output=string|block]
             [--pkcs7-public-key=FILE] [--pkcs7-private-key=FILE]

reads the key files from the simulated file system, and implements a keyed,
randomised, reversible cipher:

    ENC[PKCS7,<base64( key-id(4) || nonce(2) || plaintext XOR stream )>]

``encrypt`` uses the *public* key's id, ``decrypt`` requires a *private* key
with the same id (otherwise it exits non-zero, like a wrong-key decrypt).
Every call is logged.  Faults (exit non-zero, print nothing) are planned per
call index by the caller; the peer itself draws no random numbers except from
the nonce seed it is given.
"""
import base64
import hashlib
import re
from subprocess import CalledProcessError, CompletedProcess

BIN_PATH = "/sim/bin/eyaml"
_ENC_RE = re.compile(r"^ENC\[PKCS7,([A-Za-z0-9+/=]+)\]$")


def key_file(role, key_id):
    """Content of a simulated key file."""
    return "-----BEGIN %s KEY-----\nid=%s\n-----END %s KEY-----\n" % (
        role, key_id, role)


def _key_id_of(content, role):
    text = content.decode("utf-8", "replace") if isinstance(
        content, (bytes, bytearray)) else content
    if "BEGIN %s KEY" % role not in text:
        return None
    match = re.search(r"^id=(\S+)$", text, re.M)
    return match.group(1) if match else None


def _stream(key_id, nonce, length):
    out = b""
    counter = 0
    while len(out) < length:
        out += hashlib.sha256(
            key_id.encode() + b"|" + nonce + b"|" + str(counter).encode()
        ).digest()
        counter += 1
    return out[:length]


def _idtag(key_id):
    return hashlib.sha256(key_id.encode()).digest()[:4]


def encrypt(plaintext, key_id, nonce):
    """Pure cipher, also used by workload generators to seed documents."""
    data = plaintext if isinstance(plaintext, bytes) else plaintext.encode()
    body = bytes(a ^ b for a, b in zip(data, _stream(key_id, nonce,
                                                      len(data))))
    return "ENC[PKCS7," + base64.b64encode(
        _idtag(key_id) + nonce + body).decode("ascii") + "]"


def decrypt(ciphertext, key_id):
    """Return the plaintext bytes, or None when the key does not fit."""
    match = _ENC_RE.match(ciphertext)
    if not match:
        return None
    try:
        blob = base64.b64decode(match.group(1), validate=True)
    except (ValueError, base64.binascii.Error):
        return None
    if len(blob) < 6 or blob[:4] != _idtag(key_id):
        return None
    nonce = blob[4:6]
    body = blob[6:]
    return bytes(a ^ b for a, b in zip(body, _stream(key_id, nonce,
                                                      len(body))))


def as_block(ciphertext, width):
    """hiera-eyaml's --output=block: indented lines of fixed width."""
    lines = [ciphertext[i:i + width] for i in range(0, len(ciphertext),
                                                     width)]
    return "\n".join("    " + line for line in lines)


class FakeEyaml:
    """The peer process, as seen from eyamlprocessor.py."""

    def __init__(self, world, nonce_seed=1, block_width=60, faults=None,
                 installed=True):
        self.world = world
        self.nonce = int(nonce_seed) & 0xFFFF
        self.block_width = max(8, int(block_width))
        # faults: {call index: "fail" | "empty" | "echo"}
        self.faults = dict(faults or {})
        self.installed = installed
        self.log = []
        self.calls = 0

    # -- seams -----------------------------------------------------------
    def which(self, name):
        if self.installed and name == "eyaml":
            return BIN_PATH
        return None

    def access(self, path, mode):
        if path == BIN_PATH:
            return self.installed
        return self.world.access(path, mode)

    def run(self, cmd, stdout=None, input=None, check=False, shell=False,
            **kwargs):  # pylint: disable=redefined-builtin
        index = self.calls
        self.calls = index + 1
        verb = cmd[1] if len(cmd) > 1 else ""
        opts = {}
        for arg in cmd[2:]:
            if arg.startswith("--") and "=" in arg:
                name, value = arg[2:].split("=", 1)
                opts[name] = value
            elif arg.startswith("--"):
                opts[arg[2:]] = True
        fault = self.faults.get(index)
        if fault is not None:
            self.world.flags.add("peer-fault:" + fault)
        # subprocess.run's text mode (encoding= / errors= / text= /
        # universal_newlines=): str in, str out, and universal-newline
        # translation of what the child printed -- as CPython does it.
        encoding = kwargs.get("encoding")
        text_mode = bool(encoding or kwargs.get("errors")
                         or kwargs.get("text")
                         or kwargs.get("universal_newlines"))
        encoding = encoding or "utf-8"
        if isinstance(input, str):
            input = input.encode(encoding)
        code, out, note = self._serve(verb, opts, input or b"", fault)
        if text_mode:
            out = out.decode(encoding).replace("\r\n", "\n").replace(
                "\r", "\n")
        self.log.append((index, verb, note, code))
        self.world.trace.append((self.world.k, "peer-" + verb, note, len(out),
                                 fault))
        if code != 0 and check:
            raise CalledProcessError(code, cmd, output=out)
        return CompletedProcess(cmd, code, stdout=out)

    # -- behaviour -------------------------------------------------------
    def _read_key(self, path, role):
        if not path:
            return "default"
        data = self.world.fs.get(path)
        if data is None or path in self.world.unreadable:
            return None
        return _key_id_of(bytes(data), role)

    def _serve(self, verb, opts, stdin, fault):
        if cmd_bad(opts):
            return 2, b"", "bad-args"
        if fault == "fail":
            return 1, b"", "injected-fail"
        if verb == "encrypt":
            key_id = self._read_key(opts.get("pkcs7-public-key"), "PUBLIC")
            if key_id is None:
                return 1, b"", "no-public-key"
            if fault == "empty":
                return 0, b"", "injected-empty"
            self.nonce = (self.nonce * 75 + 74) % 65537 & 0xFFFF
            cipher = encrypt(stdin, key_id, self.nonce.to_bytes(2, "big"))
            form = opts.get("output", "string")
            if form == "block":
                text = as_block(cipher, self.block_width)
            elif form == "string":
                text = cipher
            else:
                return 2, b"", "bad-output-format"
            return 0, (text + "\n").encode("ascii"), \
                "enc:%s:%s" % (key_id, _sha(stdin))
        if verb == "decrypt":
            key_id = self._read_key(opts.get("pkcs7-private-key"), "PRIVATE")
            if key_id is None:
                return 1, b"", "no-private-key"
            text = stdin.decode("ascii", "replace")
            if fault == "empty":
                return 0, b"", "injected-empty"
            if fault == "echo":
                return 0, stdin, "injected-echo"
            plain = decrypt(text, key_id)
            if plain is None:
                return 1, b"", "dec-failed:%s:%s" % (key_id, _sha(stdin))
            return 0, plain + b"\n", "dec:%s:%s" % (key_id, _sha(stdin))
        return 2, b"", "bad-verb"


def _sha(data):
    return hashlib.sha256(data).hexdigest()[:12]


def cmd_bad(opts):
    return not (opts.get("quiet") is True and opts.get("stdin") is True)
