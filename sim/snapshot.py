"""
Plain-data snapshots of live ruamel.yaml documents and of generator models.

``typed(x)`` is a hashable, order-preserving, type-distinguishing value:

  mapping  -> ("m", ((typed(key), typed(value)), ...))     key order kept
  sequence -> ("l", (typed(e), ...))
  set      -> ("S", tuple(sorted(typed(e))))                order-free
  scalar   -> (typename, value)   typename in str int float bool null date

so ``1``, ``1.0``, ``True`` and ``"1"`` are four different things.

``anchors(doc)`` gives {position: anchor-name} for every position whose node
carries an anchor (aliases included: an alias *is* the anchored node), and
``alias_groups(doc)`` the sets of positions that are one shared object.
A position is a tuple of ("k", typed-key) / ("i", index) segments.
"""
import datetime

from ruamel.yaml.comments import CommentedMap, CommentedSeq, CommentedSet, \
    TaggedScalar


def typed_scalar(value):
    if value is None:
        return ("null", None)
    if isinstance(value, bool):
        return ("bool", bool(value))
    if hasattr(value, "__class__") and \
            value.__class__.__name__ == "ScalarBoolean":
        return ("bool", bool(value))
    if isinstance(value, int):
        return ("int", int(value))
    if isinstance(value, float):
        return ("float", float(value))
    if isinstance(value, str):
        return ("str", str(value))
    if isinstance(value, (datetime.date, datetime.datetime)):
        return ("date", value.isoformat())
    if isinstance(value, bytes):
        return ("bytes", bytes(value))
    if isinstance(value, TaggedScalar):
        return ("tagged", str(value.tag.value), str(value.value))
    return ("other", type(value).__name__, repr(value))


def typed(node):
    """Typed snapshot of a live ruamel (or plain Python) document."""
    if isinstance(node, (CommentedSet, set, frozenset)):
        return ("S", tuple(sorted((typed(e) for e in node), key=repr)))
    if isinstance(node, dict):
        items = node.non_merged_items() if isinstance(node, CommentedMap) \
            else node.items()
        return ("m", tuple((typed(k), typed(v)) for k, v in items))
    if isinstance(node, (list, tuple)):
        return ("l", tuple(typed(e) for e in node))
    return typed_scalar(node)


def typed_merged(node):
    """Like ``typed`` but with YAML merge keys applied (ruamel's view)."""
    if isinstance(node, (CommentedSet, set, frozenset)):
        return ("S", tuple(sorted((typed_merged(e) for e in node), key=repr)))
    if isinstance(node, dict):
        return ("m", tuple((typed_merged(k), typed_merged(v))
                           for k, v in node.items()))
    if isinstance(node, (list, tuple)):
        return ("l", tuple(typed_merged(e) for e in node))
    return typed_scalar(node)


def model_typed(doc, table=None):
    """Typed snapshot of a generator model (aliases resolved)."""
    from sim.gen_docs import anchors_of
    table = anchors_of(doc) if table is None else table

    def conv(node):
        kind = node["t"]
        if kind == "s":
            return typed_scalar(node["v"])
        if kind == "*":
            return conv(table[node["n"]])
        if kind == "m":
            return ("m", tuple((conv(k), conv(v)) for k, v in node["i"]))
        if kind == "l":
            return ("l", tuple(conv(i) for i in node["i"]))
        if kind == "S":
            return ("S", tuple(sorted((conv(i) for i in node["i"]),
                                      key=repr)))
        raise ValueError(kind)
    return conv(doc)


def untyped(snap):
    """Back to ordinary Python data (for messages and JSON comparison)."""
    tag = snap[0]
    if tag == "m":
        return {_keyable(untyped(k)): untyped(v) for k, v in snap[1]}
    if tag == "l":
        return [untyped(e) for e in snap[1]]
    if tag == "S":
        return {"!!set": [untyped(e) for e in snap[1]]}
    if tag == "tagged":
        return snap[2]
    return snap[1]


def _keyable(value):
    if isinstance(value, (dict, list)):
        return repr(value)
    return value


def node_anchor(node):
    anchor = getattr(node, "anchor", None)
    if anchor is None:
        return None
    value = getattr(anchor, "value", None)
    return value if value else None


def walk(doc):
    """Yield (position, parent, parentref, node) for every value node."""
    stack = [((), None, None, doc)]
    while stack:
        pos, parent, ref, node = stack.pop()
        yield pos, parent, ref, node
        if isinstance(node, CommentedSet):
            continue
        if isinstance(node, dict):
            items = list(node.non_merged_items()) \
                if isinstance(node, CommentedMap) else list(node.items())
            for key, val in reversed(items):
                stack.append((pos + (("k", typed(key)),), node, key, val))
        elif isinstance(node, list):
            for idx in reversed(range(len(node))):
                stack.append((pos + (("i", idx),), node, idx, node[idx]))


def anchors(doc):
    """{position: anchor name} (value positions only)."""
    out = {}
    for pos, _parent, _ref, node in walk(doc):
        name = node_anchor(node)
        if name is not None:
            out[pos] = name
    return out


def alias_groups(doc):
    """Sorted tuples of >= 2 positions holding one anchored object."""
    by_id = {}
    for pos, _parent, _ref, node in walk(doc):
        if node_anchor(node) is not None:
            by_id.setdefault(id(node), []).append(pos)
    return sorted((tuple(sorted(v, key=repr)) for v in by_id.values()
                   if len(v) > 1), key=repr)


def full(doc):
    """Everything C03/C04/C09 mean by 'the document'."""
    return (typed(doc), tuple(sorted(anchors(doc).items(), key=repr)),
            tuple(alias_groups(doc)))


def get_at(doc, pos):
    """Resolve a position in a live document (KeyError/IndexError if gone)."""
    node = doc
    for kind, ref in pos:
        if kind == "i":
            node = node[ref]
        else:
            found = False
            items = node.non_merged_items() if isinstance(node, CommentedMap) \
                else node.items()
            for key, val in items:
                if typed(key) == ref:
                    node = val
                    found = True
                    break
            if not found:
                raise KeyError(ref)
    return node
