"""
Shared harness: recipe execution, seeded parallel batches, replay files,
known findings, evidence files.

Conventions
-----------
* ``VERIF_SEED`` (int, default 20240917) is the only source of randomness:
  run *i* of shard *s* of property *P* uses
  ``random.Random("%d/%s/%d/%d" % (seed, P, s, i))``.
* Workers are forked from a parent that has re-exec'd itself with
  ``PYTHONHASHSEED=0``; results are keyed by run index, so a batch's outcome
  does not depend on worker count or completion order.
* A wall-clock cap that expires is a *harness error* (exit 2): never a pass,
  never a VIOLATION.
"""
import base64
import faulthandler
import hashlib
import json
import multiprocessing
import os
import subprocess
import sys
import time
from concurrent.futures import ProcessPoolExecutor, as_completed

VERIF = os.path.dirname(os.path.dirname(os.path.abspath(__file__)))
REPO = os.environ.get("VERIF_REPO", "/repo")
DEFAULT_SEED = 20240917


def bootstrap():
    """
    Pin the interpreter state every check depends on: hash seed 0, /verif and
    the repository under test first on sys.path.  Re-execs once if needed.
    """
    want = os.environ.get("VERIF_HASHSEED", "0")
    if os.environ.get("PYTHONHASHSEED") != want:
        env = dict(os.environ, PYTHONHASHSEED=want)
        os.execve(sys.executable, [sys.executable] + sys.argv, env)
    for path in (VERIF, REPO):
        if path in sys.path:
            sys.path.remove(path)
    sys.path.insert(0, VERIF)
    sys.path.insert(0, REPO)
    import yamlpath  # noqa: F401  pylint: disable=unused-import
    got = os.path.realpath(os.path.dirname(yamlpath.__file__))
    want = os.path.realpath(os.path.join(REPO, "yamlpath"))
    if got != want:
        print("HARNESS-ERROR: yamlpath imported from %s, expected %s"
              % (got, want))
        sys.exit(2)


def seed_from_env():
    raw = os.environ.get("VERIF_SEED", "")
    try:
        return int(raw)
    except ValueError:
        return DEFAULT_SEED


def tier_from(args_tier):
    return args_tier or os.environ.get("VERIF_TIER") or "quick"


def repo_state():
    """HEAD and a hash of the working-tree diff of the repository."""
    try:
        head = subprocess.run(
            ["git", "-C", REPO, "rev-parse", "HEAD"], capture_output=True,
            text=True, check=False).stdout.strip()
        diff = subprocess.run(
            ["git", "-C", REPO, "diff", "HEAD", "--", "yamlpath"],
            capture_output=True, check=False).stdout
        return {"head": head,
                "worktree_diff_sha256": hashlib.sha256(diff).hexdigest(),
                "worktree_dirty": bool(diff.strip()), "path": REPO}
    except OSError:
        return {"head": "unknown", "path": REPO}


# ----------------------------------------------------------------------
# recipes
# ----------------------------------------------------------------------
def make_world(recipe, faults=()):
    from sim.world import World, SimFault
    from sim.peer_eyaml import FakeEyaml
    flts = [SimFault.from_json(f) if isinstance(f, dict) else f
            for f in faults]
    world = World(
        recipe["files"], unreadable=recipe.get("unreadable", ()),
        dirs=recipe.get("dirs", ()), stdin=recipe.get("stdin", ""),
        tty=recipe.get("tty", True),
        stdin_chunks=recipe.get("stdin_chunks"),
        knobs=recipe.get("knobs"), faults=flts,
        secrets_seed=recipe.get("secrets_seed", 1),
        links=recipe.get("links"))
    peer = recipe.get("peer")
    if peer:
        world.peer = FakeEyaml(
            world, nonce_seed=peer.get("nonce_seed", 1),
            block_width=peer.get("block_width", 60),
            faults={int(k): v for k, v in (peer.get("faults") or {}).items()},
            installed=peer.get("installed", True))
    return world


def execute(recipe, faults=(), count_lines=False):
    """Run one recipe (optionally with faults) and return the Result."""
    from sim.world import run_tool
    world = make_world(recipe, faults)
    world.count_lines = count_lines
    res = run_tool(world, recipe["tool"], recipe["argv"])
    gaps = sorted(f for f in res.flags if f.startswith("seam-gap:"))
    if gaps:
        # the code under test reached for a part of the operating system the
        # simulator does not model: nothing can be concluded from this run
        raise SeamGap("the code under test called %s on a simulated path; "
                      "sim/world.py does not model it (tool %s, argv %r)"
                      % (", ".join(g[9:] for g in gaps), recipe["tool"],
                         recipe["argv"]))
    return res


class SeamGap(RuntimeError):
    """An un-modelled system call met a simulated path (a harness error)."""


def initial_fs(recipe):
    """What every name reads as before the run (links: their target's bytes)."""
    if recipe.get("links"):
        from sim.world import World
        return World(recipe["files"], links=recipe["links"]).snapshot()
    return {p: (d.encode("utf-8") if isinstance(d, str) else bytes(d))
            for p, d in recipe["files"].items()}


# ----------------------------------------------------------------------
# parallel batches
# ----------------------------------------------------------------------
def _shard_entry(args):
    func_mod, func_name, payload, cap = args
    faulthandler.enable()
    faulthandler.dump_traceback_later(cap, exit=True)
    mod = sys.modules.get(func_mod) or __import__(func_mod, fromlist=["x"])
    try:
        return getattr(mod, func_name)(payload)
    except Exception as ex:  # pylint: disable=broad-except
        import traceback
        raise RuntimeError("worker failed on payload %r:\n%s" % (
            payload[:4] if isinstance(payload, tuple) else payload,
            traceback.format_exc())) from ex
    finally:
        faulthandler.cancel_dump_traceback_later()


def run_shards(func, payloads, workers=None, cap_s=900):
    """
    Run ``func(payload)`` for every payload in forked workers.  Returns the
    results in payload order.  Raises HarnessError on timeout/worker death.
    """
    workers = workers or int(os.environ.get("VERIF_WORKERS", "0")) or \
        min(16, os.cpu_count() or 1)
    mod = func.__module__
    if mod == "__main__":
        mod = os.path.splitext(os.path.basename(sys.argv[0]))[0]
        sys.modules.setdefault(mod, sys.modules["__main__"])
    name = func.__name__
    results = [None] * len(payloads)
    if workers <= 1:
        for idx, payload in enumerate(payloads):
            results[idx] = func(payload)
        return results
    ctx = multiprocessing.get_context("fork")
    deadline = time.time() + cap_s
    with ProcessPoolExecutor(max_workers=workers, mp_context=ctx) as pool:
        futs = {pool.submit(_shard_entry, (mod, name, payload, cap_s)): idx
                for idx, payload in enumerate(payloads)}
        try:
            for fut in as_completed(futs, timeout=max(1, deadline
                                                      - time.time())):
                results[futs[fut]] = fut.result()
        except Exception as ex:  # pylint: disable=broad-except
            for fut in futs:
                fut.cancel()
            for proc in list(getattr(pool, "_processes", {}).values()):
                try:
                    proc.kill()
                except OSError:
                    pass
            raise HarnessError("batch did not complete: %r" % (ex,)) from ex
    return results


class HarnessError(Exception):
    """The machinery failed (timeout, dead worker): not a verdict."""


# ----------------------------------------------------------------------
# replay files, known findings
# ----------------------------------------------------------------------
def _jsonable(obj):
    if isinstance(obj, bytes):
        return {"__b64__": base64.b64encode(obj).decode("ascii")}
    if isinstance(obj, (set, frozenset)):
        return sorted(obj)
    if isinstance(obj, tuple):
        return list(obj)
    raise TypeError(type(obj))


def write_replay(prop, payload):
    """Write a replay file; its name is a digest of its content."""
    body = json.dumps(payload, sort_keys=True, default=_jsonable, indent=1)
    digest = hashlib.sha256(body.encode()).hexdigest()[:16]
    os.makedirs(os.path.join(VERIF, "replays"), exist_ok=True)
    path = os.path.join(VERIF, "replays", "%s-%s.json" % (prop, digest))
    with open(path, "w", encoding="utf-8") as fhnd:
        fhnd.write(body + "\n")
    return path


def load_known():
    path = os.path.join(VERIF, "known_findings.json")
    try:
        with open(path, encoding="utf-8") as fhnd:
            return json.load(fhnd)
    except FileNotFoundError:
        return {"findings": [], "fixed": []}


def known_for(prop):
    if os.environ.get("VERIF_IGNORE_KNOWN") == "1":
        return []       # self-tests only: show what the list suppresses
    return [f for f in load_known().get("findings", [])
            if f.get("property") == prop]


# ----------------------------------------------------------------------
# evidence
# ----------------------------------------------------------------------
def write_evidence(prop, tier, seed, level, coverage, assumptions, wall_s,
                   violations, extra=None):
    os.makedirs(os.path.join(VERIF, "evidence"), exist_ok=True)
    doc = {
        "property_id": prop, "tier": tier, "seed": seed, "level": level,
        "coverage": coverage, "assumptions": assumptions,
        "wall_s": round(wall_s, 3), "violations": violations,
    }
    doc.update(extra or {})
    path = os.path.join(VERIF, "evidence", prop + ".json")
    tmp = path + ".tmp"
    with open(tmp, "w", encoding="utf-8") as fhnd:
        json.dump(doc, fhnd, indent=1, sort_keys=True, default=_jsonable)
        fhnd.write("\n")
    os.replace(tmp, path)
    return path


REAL_AND_STUB = {
    "real_code": [
        "yamlpath (all of it: argument parsing, validation, Parsers, "
        "Processor, Merger, Differ, EYAMLProcessor, save sequences)",
        "ruamel.yaml", "argparse", "json", "configparser",
        "CPython io stack (TextIOWrapper/BufferedWriter/BufferedReader/"
        "BufferedRandom) and shutil.copyfileobj",
    ],
    "stubbed": [
        "file system (dict-backed SimFS under /sim/)",
        "shutil.copy2 (SimFS composite: open src, open+truncate dst, chunked "
        "pump, copystat)", "tempfile.TemporaryFile (anonymous SimFS file)",
        "stdin/stdout/stderr (scripted / captured)", "sys.argv",
        "process exit (SystemExit / uncaught exception / SimCrash)",
        "SIGINT (KeyboardInterrupt from a line tracer)",
        "eyaml executable (in-process keyed cipher)", "secrets (seeded)",
    ],
}


def short(obj, limit=400):
    text = obj if isinstance(obj, str) else json.dumps(
        obj, sort_keys=True, default=_jsonable)
    return text if len(text) <= limit else text[:limit] + "..."


def regression_files(prop):
    """Committed replay files of defects that were fixed: re-run every time."""
    import glob
    return sorted(glob.glob(os.path.join(VERIF, "regressions",
                                         prop + "-*.json")))


def run_regressions(prop, reproduces):
    """
    ``reproduces(path) -> bool``.  Returns the list of regression replays
    whose violation has come back (each is a VIOLATION for the caller).
    """
    back = []
    for path in regression_files(prop):
        try:
            if reproduces(path):
                back.append(path)
        except Exception as ex:  # pylint: disable=broad-except
            print("HARNESS-ERROR: regression %s could not run: %r"
                  % (path, ex))
            sys.exit(2)
    return back


def load_windows(result):
    """
    Traced-line ranges during which an input was open for reading (from the
    open-r step to the matching close): the "load phase" of each input, where
    an interruption leaves a half-read document behind.
    """
    windows = []
    opened = {}
    kinds = {k: kind for (k, kind, _ln) in result.step_lines}
    paths = {ev[0]: ev[2] for ev in result.trace}
    for (k, kind, line) in result.step_lines:
        path = paths.get(k)
        if kind == "open-r":
            opened[path] = line
        elif kind == "close" and path in opened:
            lo = opened.pop(path)
            if line > lo:
                windows.append((lo, line))
    del kinds
    return windows


def sample_load_phase_line(rng, result):
    """A traced line inside some input's load phase (None if there is none)."""
    windows = load_windows(result)
    if not windows:
        return None
    lo, hi = rng.choice(windows)
    return rng.randrange(lo, hi)


_WARM = False


def warm_up():
    """
    Run a fixed battery of tool invocations once per process before anything
    is counted.  Several libraries fill process-global caches the first time
    a code path runs (ruamel's versioned implicit resolvers, argparse, re);
    the traced-line count of a run -- which SIGINT positions are expressed in
    -- would otherwise depend on which scenarios happened to run earlier in
    the same worker process.
    """
    global _WARM
    if _WARM:
        return
    _WARM = True
    from sim import gen_args
    import random as _random
    rng = _random.Random("warm-up")
    battery = []
    for _ in range(6):
        battery.append(gen_args.gen_set(rng))
        battery.append(gen_args.gen_merge(rng))
        battery.append(gen_args.gen_rotate(rng))
    for label in gen_args.SET_FAILURES:
        battery.append(gen_args.gen_set(rng, label=label))
    for label in gen_args.MERGE_FAILURES:
        battery.append(gen_args.gen_merge(rng, label=label))
    for recipe in battery:
        try:
            execute(recipe)
            execute(recipe, count_lines=True)
        except Exception:  # pylint: disable=broad-except
            pass
    for tool, argv, files in (
            ("yaml-get", ["-p", "a", "/sim/w/d.yaml"], {"/sim/w/d.yaml": "a: [1, {b: c}]\n"}),
            ("yaml-paths", ["-s", "=1", "-L", "/sim/w/d.yaml"], {"/sim/w/d.yaml": "a: 1\n---\nb: &x 1\nc: *x\n"}),
            ("yaml-validate", ["-v", "/sim/w/d.yaml"], {"/sim/w/d.yaml": "a: [1\n"}),
            ("yaml-diff", ["-s", "/sim/w/d.yaml", "/sim/w/e.yaml"], {"/sim/w/d.yaml": "a: [1, 2]\nb: {c: 1}\n", "/sim/w/e.yaml": "a: [2]\nb: {c: 2}\n"})):
        recipe = {"tool": tool, "argv": argv, "files": files}
        try:
            execute(recipe)
            execute(recipe, count_lines=True)
        except Exception:  # pylint: disable=broad-except
            pass
