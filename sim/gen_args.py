"""
Seeded scenario builders for the three tools that write files
(yaml-set, yaml-merge, eyaml-rotate-keys).

A *recipe* is a JSON-able dict (it is also the replay-file payload):

  tool, argv, files {path: text}, unreadable [paths], dirs [paths],
  stdin (text), tty (bool), stdin_chunks, knobs, peer (dict or None),
  secrets_seed, meta {label, targets, backup, keep, family}

``meta.label`` is "success" or the name of a pre-write failure cause the
scenario was *constructed* to have (DESIGN Appendix A); ``meta.targets`` are
the files the tool is entitled to rewrite, ``meta.keep`` files that must
never change whatever happens (yaml-merge --output onto an existing file).
"""
from sim import gen_docs as gd
from sim import peer_eyaml

W = "/sim/w/"
NEW_VALUES = ["9", "new v", "true", "2.5", "", "null", "b", "x"]


def gen_knobs(rng):
    return {
        "text_buf": rng.choice([1, 3, 7, 16, 64, 8192]),
        "bin_buf": rng.choice([1, 4, 16, 64, 8192]),
        "copy_chunk": rng.choice([1, 8, 32, 65536]),
        "write_through": rng.random() < 0.5,
    }


def _doc_text(rng, doc, suffix):
    """Serialise a model the way the file suffix and a coin suggest."""
    if suffix == ".json" and rng.random() < 0.7:
        return gd.to_json(doc, indent=rng.choice([None, 2])), "json"
    style = "flow" if rng.random() < 0.12 else "block"
    return gd.to_yaml(doc, style=style, start=rng.random() < 0.7,
                      trailing_newline=rng.random() < 0.9), style


LEFTOVER_SUFFIXES = (".bak.tmp", ".tmp", ".new", "~", ".bak~", ".orig",
                     ".bak.new", ".swp")


def _stale_bak(rng, files, target, original):
    if rng.random() < 0.12:
        # what an interrupted earlier run (of this or of any other tool) may
        # have left next to the file: longer than anything written today
        files[target + rng.choice(LEFTOVER_SUFFIXES)] = \
            "leftover: of an interrupted run\n" + \
            "".join("line %03d of something much longer\n" % n
                    for n in range(rng.choice([3, 40, 300])))
    return _stale_bak_only(rng, files, target, original)


def _stale_bak_only(rng, files, target, original):
    roll = rng.random()
    if roll < 0.45:
        return "absent"
    if roll < 0.75:
        files[target + ".bak"] = "stale: backup\nfrom: an earlier run\n"
        return "different"
    if roll < 0.85:
        files[target + ".bak"] = original
        return "identical"
    if roll < 0.93:
        # other content, same length (and, like every pre-existing file of
        # the simulated tree, the same modification time)
        files[target + ".bak"] = "#" * len(original)
        return "same-size"
    if roll < 0.965:
        files[target + ".bak"] = ""
        return "empty"
    return "directory"      # the caller registers <target>.bak as a directory


def _bystanders(rng, files):
    files[W + "other.yaml"] = "---\nbystander: 1\n"
    if rng.random() < 0.5:
        files[W + "notes.txt"] = "not yaml at all\n"


def _scalar_positions(doc, strings_only=False, allow_alias=False):
    out = []
    for segs, node in gd.positions(doc):
        if not segs:
            continue
        if node["t"] == "s" or (allow_alias and node["t"] == "*"):
            if strings_only and not (node["t"] == "s"
                                     and isinstance(node["v"], str)):
                continue
            out.append((segs, node))
    return out


def _map_positions(doc):
    return [(segs, node) for segs, node in gd.positions(doc)
            if node["t"] == "m"]


def _under_set(doc, segs):
    return False


def _path(rng, segs):
    sep = rng.choice([".", ".", "/"])
    return gd.render_path(segs, sep)


# ----------------------------------------------------------------------
# yaml-set
# ----------------------------------------------------------------------
SET_FAILURES = [
    "unmatched-required", "failed-check", "saveto-many", "impossible-create",
    "delete-root", "delete-unmatched", "alias-many-anchors",
    "mergekey-non-hash", "bad-format", "invalid-input", "missing-input",
    "bad-args", "unreadable-input", "saveto-same",
]

INVALID_DOCS = {
    "syntax": "---\na: [1, 2\nb: 3\n",
    "dupkey": "---\na: 1\nb: 2\na: 3\n",
    "dupanchor": "---\na: &A 1\nb: &A 2\nc: *A\n",
    "undef-alias": "---\na: *nope\n",
    "truncated-flow": "--- {a: 1, b: [x, y\n",
    "tab-indent": "---\na:\n\tb: 1\n",
}


def gen_set(rng, label=None, backup=None, docgen_opts=None):
    """One yaml-set scenario; ``label`` None means a successful edit."""
    opts = dict(sets=rng.random() < 0.15, anchors=rng.random() < 0.6,
                nonascii=rng.random() < 0.2, max_nodes=rng.choice([4, 8, 16]),
                multiline=rng.random() < 0.1, special=rng.random() < 0.1)
    opts.update(docgen_opts or {})
    gen = gd.DocGen(rng, **opts)
    doc = gen.document()
    suffix = rng.choice([".yaml", ".yaml", ".yml", ".json"])
    if opts["sets"] or opts["anchors"]:
        suffix = rng.choice([".yaml", ".yml"])
    target = W + "doc" + suffix
    text, style = _doc_text(rng, doc, suffix)
    files = {target: text}
    _bystanders(rng, files)
    backup = (rng.random() < 0.7) if backup is None else backup
    argv = []
    stdin = ""
    tty = True
    meta = {"label": label or "success", "targets": [target],
            "backup": backup, "keep": [], "family": "set"}
    scalars = _scalar_positions(doc)
    strs = _scalar_positions(doc, strings_only=True)
    anchored = [(s, n) for s, n in scalars if n.get("a")]

    def any_scalar():
        if scalars:
            return rng.choice(scalars)
        return ((("k", "zz"),), gd.S("new"))

    if label is None:
        ops = ["value", "value", "value", "create", "delete", "null", "file",
               "stdin", "random", "tag", "saveto", "check", "multi", "format"]
        if anchored:
            ops += ["aliasof", "aliasof"]
        if scalars:
            ops += ["aliasof-new"]
        op = rng.choice(ops)
        meta["op"] = op
        segs, node = any_scalar()
        path = _path(rng, segs)
        newv = rng.choice(NEW_VALUES)
        if op == "value":
            argv = ["-g", path, "-a", newv]
            if rng.random() < 0.3:
                argv.append("-m")
        elif op == "create":
            maps = _map_positions(doc)
            if maps:
                base, _ = rng.choice(maps)
            else:
                base = ()
            tail = rng.choice([(("k", "zz"),), (("k", "zz"), ("k", "yy")),
                               (("k", "new key"),)])
            if doc["t"] == "l" and not base:
                base = (("i", 0),)
                if doc["i"][0]["t"] != "m":
                    tail = ()
                    base = (("i", len(doc["i"])),)
            argv = ["-g", _path(rng, base + tail), "-a", newv]
        elif op == "delete":
            cands = [s for s, _ in gd.positions(doc) if s]
            argv = ["-g", _path(rng, rng.choice(cands)), "-D"]
        elif op == "null":
            argv = ["-g", path, "-N"]
        elif op == "file":
            files[W + "value.txt"] = rng.choice(
                ["from file\n", "multi\nline\n\n", "9\n", "plain"])
            argv = ["-g", path, "-f", W + "value.txt"]
        elif op == "stdin":
            stdin = rng.choice(["from stdin", "piped\nvalue\n", "7"])
            tty = False
            argv = ["-g", path, "-i"]
        elif op == "random":
            argv = ["-g", path, "-R", str(rng.choice([1, 8, 20]))]
            if rng.random() < 0.4:
                argv += ["-M", rng.choice(["ab", "xyz0123"])]
        elif op == "tag":
            argv = ["-g", path, "-T", rng.choice(["mytag", "!t"])]
            if rng.random() < 0.5:
                argv += ["-a", newv]
        elif op == "saveto":
            argv = ["-g", path, "-a", newv, "-s",
                    rng.choice(["saved", "/old/value", "backup.of.it"])]
        elif op == "check":
            if strs:
                segs, node = rng.choice(strs)
                path = _path(rng, segs)
                argv = ["-g", path, "-a", newv, "-c", node["v"]]
                if node["v"] == "":
                    argv = ["-g", path, "-a", newv]
            else:
                argv = ["-g", path, "-a", newv]
        elif op == "multi":
            argv = ["-g", rng.choice(["**", "*", "/**", "[.=~/^[abx]/]",
                                      "[.!=zzz]"]),
                    "-a", newv]
        elif op == "format":
            fmt, val = rng.choice([
                ("int", "42"), ("float", "4.25"), ("boolean", "true"),
                ("dquote", "quoted"), ("squote", "quoted"), ("bare", "plain"),
                ("folded", "fold me please"), ("literal", "lit\neral"),
                ("default", "7")])
            argv = ["-g", path, "-a", val, "-F", fmt]
        elif op == "aliasof":
            asegs, _anode = rng.choice(anchored)
            others = [s for s, _ in scalars if s != asegs] or [segs]
            argv = ["-g", _path(rng, rng.choice(others)),
                    "-A", _path(rng, asegs)]
        elif op == "aliasof-new":
            asegs, _anode = rng.choice(scalars)
            others = [s for s, _ in scalars if s != asegs] or [segs]
            argv = ["-g", _path(rng, rng.choice(others)),
                    "-A", _path(rng, asegs),
                    # as people type or paste them: with the sigil, with
                    # blanks around or inside
                    "-H", rng.choice(["newanc", "newanc", "&newanc",
                                      "*newanc ", "new anc", "& newanc",
                                      " newanc", "new,anc", "anc[1]",
                                      "{anc}"])]
    else:
        segs, node = any_scalar()
        path = _path(rng, segs)
        if label == "unmatched-required":
            argv = ["-g", rng.choice(["/no/such", "nosuch", "[0].nope.x",
                                      "zz[5]"]),
                    "-a", "v", "-m"]
        elif label == "failed-check":
            argv = ["-g", path, "-a", "v", "-c", "certainly-not-the-value"]
        elif label == "saveto-many":
            files[target] = "---\nb1: x\nb2: y\nother: z\n"
            argv = ["-g", "/[.^b]", "-a", "v", "-s", "saved"]
        elif label == "saveto-same":
            argv = ["-g", path, "-a", "v", "-s", path]
        elif label == "impossible-create":
            files[target] = "---\na: scalar\nl:\n  - 1\n"
            argv = ["-g", rng.choice(["a.b", "a[0]", "/a/b/c"]), "-a", "v"]
        elif label == "delete-root":
            argv = ["-g", "/", "-D"]
        elif label == "delete-unmatched":
            argv = ["-g", "/no/such/node", "-D"]
        elif label == "alias-many-anchors":
            files[target] = "---\nb1: &A x\nb2: &B y\nt: z\n"
            argv = ["-g", "t", "-A", "/[.^b]"]
        elif label == "mergekey-non-hash":
            files[target] = "---\nsrc: &S {k: v}\na: scalar\n"
            argv = ["-g", "a", "-K", "src"]
        elif label == "bad-format":
            argv = ["-g", path, "-a", "not-a-number",
                    "-F", rng.choice(["int", "float"])]
        elif label == "invalid-input":
            kind = rng.choice(sorted(INVALID_DOCS))
            files[target] = INVALID_DOCS[kind]
            meta["invalid"] = kind
            argv = ["-g", "a", "-a", "v"]
        elif label == "missing-input":
            del files[target]
            argv = ["-g", "a", "-a", "v"]
        elif label == "unreadable-input":
            argv = ["-g", path, "-a", "v"]
            meta["unreadable"] = True
        elif label == "bad-args":
            kind = rng.choice(["no-input-option", "short-random-from",
                               "anchor-alone", "missing-eyaml-key",
                               "stdin-twice", "unknown-option"])
            meta["badargs"] = kind
            if kind == "no-input-option":
                argv = ["-g", path]
            elif kind == "short-random-from":
                argv = ["-g", path, "-R", "5", "-M", "a"]
            elif kind == "anchor-alone":
                argv = ["-g", path, "-H", "anc"]
            elif kind == "missing-eyaml-key":
                argv = ["-g", path, "-a", "v", "-r", W + "nokey.pem"]
            elif kind == "stdin-twice":
                argv = ["-g", path, "-i"]
                meta["stdin-twice"] = True
            else:
                argv = ["-g", path, "-a", "v", "--no-such-option"]
        else:
            raise ValueError(label)
    if backup:
        argv.append("-b")
    stale = "n/a"
    dirs = []
    if target in files and rng.random() < 0.08 and label is None:
        # Windows line endings: still the user's bytes, to be kept exactly
        files[target] = files[target].replace("\n", "\r\n")
        meta["crlf"] = True
    if target in files:
        stale = _stale_bak(rng, files, target, files[target])
        if stale == "directory":
            dirs.append(target + ".bak")
            if backup and label is None:
                # the backup cannot be made: a failure before writing
                meta["label"] = "bak-is-a-directory"
    meta["stale_bak"] = stale
    if rng.random() < 0.15:
        argv.append(rng.choice(["-v", "-d", "-q"]))
    unreadable = []
    if meta.get("unreadable"):
        unreadable.append(target)
    if meta.get("stdin-twice"):
        # document on stdin as well as the value: refused during validation
        argv = [a for a in argv if a != "-b"] + ["-"]
        meta["backup"] = False
        tty = False
        stdin = "a: 1\n"
    else:
        argv.append(target)
    return {
        "tool": "yaml-set", "argv": argv, "files": files,
        "unreadable": unreadable, "dirs": dirs, "stdin": stdin, "tty": tty,
        "stdin_chunks": None, "knobs": gen_knobs(rng), "peer": None,
        "secrets_seed": rng.randrange(1, 1 << 30), "meta": meta,
        "model": doc if label is None else None,
    }


# ----------------------------------------------------------------------
# yaml-merge
# ----------------------------------------------------------------------
MERGE_FAILURES = [
    "output-exists", "type-clash", "anchor-stop", "invalid-rhs",
    "invalid-lhs", "missing-input", "backup-without-overwrite",
    "mergeat-uncreatable", "mergeat-unmatched", "unreadable-input",
    "unreadable-config", "output-dir-missing",
    # the same causes delivered through the other channels
    "implicit-stdin-invalid", "implicit-stdin-clash", "dash-stdin-invalid",
    "multidoc-self-clash",
    # merges fine, but the result cannot be expressed in the requested format
    "unjsonable-output",
    # --overwrite --backup onto a file that does not exist yet
    "backup-of-missing-target",
    # two inputs both spelled "-"
    "two-dashes",
]
OUTPUT_MODES = ["stdout", "output-new", "overwrite-input", "overwrite-other",
                "overwrite-new"]


def gen_merge(rng, label=None, backup=None, mode=None):
    """One yaml-merge scenario."""
    nfiles = rng.choice([1, 2, 2, 2, 3])
    root = rng.choice(["m", "m", "m", "l"])
    files = {}
    inputs = []
    models = []
    for idx in range(nfiles):
        gen = gd.DocGen(rng, sets=False, anchors=False,
                        nonascii=rng.random() < 0.15,
                        max_nodes=rng.choice([4, 8, 12]))
        docs = [gen.document(root=root)]
        if rng.random() < 0.15:
            docs.append(gen.document(root=root))
        suffix = rng.choice([".yaml", ".yml", ".json"])
        name = W + "in%d%s" % (idx, suffix)
        if suffix == ".json" and len(docs) == 1 and rng.random() < 0.7:
            text = gd.to_json(docs[0])
        else:
            text = "".join(gd.to_yaml(d, start=True) for d in docs)
        files[name] = text
        inputs.append(name)
        models.append(docs)
    _bystanders(rng, files)
    argv = []
    meta = {"label": label or "success", "targets": [], "backup": False,
            "keep": [], "family": "merge"}
    stdin = ""
    tty = True
    unreadable = []
    dirs = []
    if label is None or label in ("type-clash", "anchor-stop", "invalid-rhs",
                                  "invalid-lhs", "missing-input",
                                  "mergeat-uncreatable", "mergeat-unmatched",
                                  "unreadable-input", "unreadable-config",
                                  "implicit-stdin-invalid",
                                  "implicit-stdin-clash",
                                  "dash-stdin-invalid",
                                  "multidoc-self-clash",
                                  "unjsonable-output"):
        mode = mode or rng.choice(OUTPUT_MODES)
    elif label == "output-exists":
        mode = "output-existing"
    elif label == "backup-without-overwrite":
        mode = rng.choice(["stdout", "output-new"])
    elif label == "output-dir-missing":
        mode = "output-nodir"
    elif label == "backup-of-missing-target":
        mode = "overwrite-new"
    elif label == "two-dashes":
        mode = rng.choice(["stdout", "output-new", "overwrite-other"])
    meta["mode"] = mode
    out = None
    if mode == "output-new":
        out = W + rng.choice(["merged.yaml", "merged.json", "merged.txt"])
        argv += ["-o", out]
        meta["targets"] = [out]
    elif mode == "output-existing":
        out = W + "existing.yaml"
        files[out] = "---\nprecious: data\n"
        # the same file under another spelling is still the same file
        spelled = rng.choice([out, out, W + "./existing.yaml",
                              "/sim/w//existing.yaml",
                              "/sim/w/../w/existing.yaml",
                              "~/existing.yaml"])
        argv += ["-o", spelled] if rng.random() < 0.6 \
            else ["--output=" + spelled]
        meta["keep"] = [out]
        meta["spelled"] = spelled
    elif mode == "output-nodir":
        out = "/sim/nodir/merged.yaml"
        argv += ["-o", out]
        meta["targets"] = [out]
    elif mode == "overwrite-input":
        out = inputs[0]
        argv += ["-w", out]
        meta["targets"] = [out]
    elif mode == "overwrite-other":
        out = W + "target.yaml"
        # (never read, only replaced: any content is a pre-image, a
        # zero-byte placeholder included)
        files[out] = rng.choice(["---\nwill: be replaced\n",
                                 "---\nwill: be replaced\n", "", "---\n",
                                 "# only a comment\n", "\n",
                                 "not: [yaml\n"])
        argv += ["-w", out]
        meta["targets"] = [out]
    elif mode == "overwrite-new":
        out = W + "fresh.yaml"
        argv += ["-w", out]
        meta["targets"] = [out]
    want_backup = (rng.random() < 0.7) if backup is None else backup
    if mode.startswith("overwrite") and mode != "overwrite-new" \
            and want_backup:
        argv.append("-b")
        meta["backup"] = True
        meta["stale_bak"] = _stale_bak(rng, files, out, files[out])
        if meta["stale_bak"] == "directory":
            dirs.append(out + ".bak")
            if label is None:
                meta["label"] = "bak-is-a-directory"
    if label == "backup-without-overwrite":
        argv.append("-b")
    if label == "backup-of-missing-target":
        argv.append("-b")
        meta["backup"] = True
    if label == "two-dashes":
        inputs.append("-")
        inputs.append("-")
        tty = False
        stdin = "---\nfrom: stdin\n"
    # merge options
    if rng.random() < 0.4:
        argv += ["-A", rng.choice(["all", "left", "right", "unique"])]
    if rng.random() < 0.3:
        argv += ["-H", rng.choice(["deep", "left", "right"])]
    if rng.random() < 0.3:
        argv += ["-O", rng.choice(["all", "deep", "left", "right",
                                   "unique"])]
    if rng.random() < 0.3:
        argv += ["-M", rng.choice(["condense_all", "merge_across",
                                   "matrix_merge"])]
    if rng.random() < (0.6 if label in ("output-exists",
                                        "backup-without-overwrite",
                                        "output-dir-missing") else 0.3):
        argv += ["-D", rng.choice(["auto", "yaml", "json"])]
    if rng.random() < 0.15:
        argv += ["-J", rng.choice(["0", "2"])]
    # (refusals decided during argument validation are more likely to be
    # combined with a perfectly good configuration file: one finding must
    # not be forgotten because a later check passed)
    if rng.random() < (0.5 if label in (
            "output-exists", "backup-without-overwrite",
            "output-dir-missing", "two-dashes") else 0.15) \
            and label != "unreadable-config":
        files[W + "merge.ini"] = "[defaults]\narrays = unique\n" \
            "[rules]\n/a = left\n"
        argv += ["-c", W + "merge.ini"]
    use_stdin = label is None and rng.random() < 0.2 and len(inputs) > 1
    if label == "type-clash":
        files[inputs[0]] = "---\nk:\n  a: 1\n"
        rhs = rng.choice(["---\nk:\n  - 1\n", "---\n- 1\n- 2\n"])
        if len(inputs) < 2:
            inputs.append(W + "in1.yaml")
        files[inputs[1]] = rhs
    elif label == "anchor-stop":
        files[inputs[0]] = "---\na: &A one\nb: *A\n"
        if len(inputs) < 2:
            inputs.append(W + "in1.yaml")
        files[inputs[1]] = "---\nc: &A two\nd: *A\n"
        argv = [a for a in argv]
        argv += ["-a", "stop"]
    elif label == "invalid-rhs":
        if len(inputs) < 2:
            inputs.append(W + "in1.yaml")
        files[inputs[-1]] = INVALID_DOCS[rng.choice(sorted(INVALID_DOCS))]
    elif label == "invalid-lhs":
        if mode != "overwrite-input":
            files[inputs[0]] = INVALID_DOCS[rng.choice(sorted(INVALID_DOCS))]
        else:
            files[inputs[0]] = INVALID_DOCS["syntax"]
    elif label == "missing-input":
        inputs.append(W + "missing.yaml")
    elif label == "mergeat-uncreatable":
        files[inputs[0]] = "---\na: scalar\n"
        if len(inputs) < 2:
            inputs.append(W + "in1.yaml")
        files[inputs[1]] = "---\nq: 1\n"
        argv += ["-m", "a.q"]
    elif label == "mergeat-unmatched":
        files[inputs[0]] = "---\nl:\n  - n: 1\n"
        if len(inputs) < 2:
            inputs.append(W + "in1.yaml")
        files[inputs[1]] = "---\nq: 1\n"
        argv += ["-m", "/l[n=9]"]
    elif label in ("implicit-stdin-invalid", "implicit-stdin-clash",
                   "dash-stdin-invalid"):
        files[inputs[0]] = "---\nk:\n  a: 1\n"
        for name in inputs[1:]:
            files[name] = "---\nother: 2\n"
        tty = False
        if label == "implicit-stdin-clash":
            stdin = "---\n- a\n- list into a hash\n"
        else:
            stdin = INVALID_DOCS[rng.choice(sorted(INVALID_DOCS))]
        if label == "dash-stdin-invalid":
            inputs.append("-")
    elif label == "multidoc-self-clash":
        del inputs[1:]
        files[inputs[0]] = "---\nk:\n  a: 1\n---\n- a\n- list\n" + \
            rng.choice(["", "", "---\nk:\n  b: 2\n", "---\nz: 9\n"])
        if rng.random() < 0.3:
            # ... or the clash sits in a right-hand stream, followed there
            # by a document that merges without complaint
            files[inputs[0]] = "---\nk:\n  a: 1\n"
            inputs.append(W + "in1.yaml")
            files[inputs[1]] = "---\n- a\n- list\n---\nk:\n  b: 2\n"
        argv = [a for i, a in enumerate(argv)
                if a != "-M" and (i == 0 or argv[i - 1] != "-M")]
    elif label == "unjsonable-output":
        # a mapping key that is itself a sequence has no JSON spelling
        files[inputs[0]] = "---\nplain: 1\n? [region, zone]\n: east\n"
        for name in inputs[1:]:
            files[name] = "---\nother: 2\n"
        argv = [a for i, a in enumerate(argv)
                if a != "-D" and (i == 0 or argv[i - 1] != "-D")]
        argv += ["-D", "json"]
    elif label == "unreadable-input":
        unreadable.append(rng.choice(inputs))
    elif label == "unreadable-config":
        files[W + "merge.ini"] = "[defaults]\narrays = unique\n"
        unreadable.append(W + "merge.ini")
        argv += ["-c", W + "merge.ini"]
    if out in files and label in ("type-clash", "anchor-stop", "invalid-lhs",
                                  "mergeat-uncreatable", "mergeat-unmatched")\
            and meta["backup"] and out == inputs[0]:
        # the overwrite target was rewritten by the label construction
        if meta.get("stale_bak") == "identical":
            files[out + ".bak"] = files[out]
    if use_stdin:
        pos = rng.randrange(len(inputs))
        name = inputs[pos]
        if name != out:
            stdin = files.pop(name)
            inputs[pos] = "-"
            tty = False
    if rng.random() < 0.15:
        argv.append(rng.choice(["-v", "-d", "-q"]))
    argv += inputs
    if tty is True and rng.random() < 0.2:
        argv.insert(0, "-S")
    if label in ("implicit-stdin-invalid", "implicit-stdin-clash") \
            and "-c" in argv:
        pass
    return {
        "tool": "yaml-merge", "argv": argv, "files": files,
        "unreadable": unreadable, "dirs": dirs, "stdin": stdin, "tty": tty,
        "stdin_chunks": [rng.choice([1, 3, 16, 4096]) for _ in range(6)]
        if not tty else None,
        "knobs": gen_knobs(rng), "peer": None,
        "secrets_seed": 1, "meta": meta, "model": None,
    }


# ----------------------------------------------------------------------
# eyaml-rotate-keys
# ----------------------------------------------------------------------
PLAINTEXTS = ["s3cret", "pass word", "x", "0", "a much longer secret value "
              "that spans more than one block line when wrapped",
              "ENC[looks-like]", "true", "p@$$:w0rd#1",
              "two\nlines", "-----BEGIN CERT-----\r\nQUJDREVGRw==\r\n"
              "-----END CERT-----", "tab\there",
              # blanks at either end belong to the secret (a trailing line
              # break would be ambiguous in eyaml's own output protocol)
              "  indented secret", "\tleading tab", "\n leading newline",
              "trailing space ", "trailing tab\t"]
NEAR_MISS = ["ENC (not)", "xENC[PKCS7,abc]", "enc[PKCS7,abc]",
             "see ENC[ later", "ENCRYPTED"]


class SecretDocGen:
    """Documents mixing plaintext with encrypted scalars."""

    def __init__(self, rng, old_key="old", nonce0=0):
        self.rng = rng
        self.old_key = old_key
        self.nonce = nonce0
        self.secrets = []   # (plaintext) in creation order

    def cipher(self, plain):
        self.nonce = (self.nonce + 1) & 0xFFFF
        return peer_eyaml.encrypt(plain, self.old_key,
                                  self.nonce.to_bytes(2, "big"))

    def secret_node(self, anchor=None):
        rng = self.rng
        plain = rng.choice(PLAINTEXTS)
        if plain.startswith("ENC[") and rng.random() < 0.7:
            plain = "hunter2"
        text = self.cipher(plain)
        style = rng.choice(["", "", '"', "'", ">", ">", "|"])
        if style in (">", "|"):
            # line breaks anywhere, including inside the ENC[ marker itself
            width = rng.choice([8, 16, 30])
            first = rng.choice([width, width, 1, 2, 3, 4])
            parts = [text[:first]] + [text[i:i + width]
                                      for i in range(first, len(text), width)]
            text = (" " if style == ">" else "\n").join(parts)
        elif style in ('"', "'") and rng.random() < 0.4:
            # whitespace inside a quoted ciphertext (marker included)
            cut = rng.randrange(1, len(text) - 1)
            text = text[:cut] + " " + text[cut:]
        node = gd.S(text, style, anchor)
        node["secret"] = plain
        self.secrets.append(plain)
        return node

    def document(self, nsecrets=None):
        rng = self.rng
        gen = gd.DocGen(rng, sets=False, anchors=False,
                        max_nodes=rng.choice([4, 8, 12]),
                        empty_containers=False)
        doc = gen.document()
        nsecrets = rng.choice([0, 1, 1, 2, 3]) if nsecrets is None \
            else nsecrets
        # plant near-miss strings
        slots = [(s, n) for s, n in gd.positions(doc)
                 if s and n["t"] == "s"]
        rng.shuffle(slots)
        for segs, node in slots[:rng.choice([0, 1, 2])]:
            node["v"] = rng.choice(NEAR_MISS)
            node["q"] = '"'
        anchors = ["S1", "S2"]
        planted = []
        for segs, node in slots[2:2 + nsecrets]:
            anchor = anchors.pop(0) if anchors and rng.random() < 0.4 \
                else None
            new = self.secret_node(anchor)
            node.clear()
            node.update(new)
            planted.append((segs, node))
        # keys the path builder may be unable to address (the tool must
        # then fail, never skip the secret and claim success)
        if planted and rng.random() < 0.08:
            segs, node = rng.choice(planted)
            holder = doc
            for kind, ref in segs[:-1]:
                holder = holder["i"][ref] if kind == "i" else \
                    next(v for k, v in holder["i"] if k["v"] == ref)
            if holder["t"] == "m":
                exotic = rng.choice([1.5, True, None, "&amp", "/etc/tls.key"])
                if not any(k["v"] == exotic and type(k["v"]) is type(exotic)
                           for k, _v in holder["i"]):
                    for pair in holder["i"]:
                        if pair[1] is node:
                            pair[0] = gd.S(exotic)
        # a second, distinct collection with equal content (hence the very
        # same ciphertext): duplicated records are common in real files
        if planted and rng.random() < 0.2:
            import copy
            segs, node = rng.choice(planted)
            if len(segs) >= 2 and not node.get("a"):
                holder = doc
                for kind, ref in segs[:-1]:
                    if kind == "i":
                        holder = holder["i"][ref]
                    else:
                        holder = next(v for k, v in holder["i"]
                                      if k["v"] == ref)
                if not any(n["t"] == "*" or n.get("a")
                           for _s, n in gd.positions(holder)):
                    twin = copy.deepcopy(holder)
                    if doc["t"] == "m":
                        doc["i"].append([gd.S("twin"), twin])
                    else:
                        doc["i"].append(twin)
                    self.secrets.append(node["secret"])
        # an ANCHORED collection (kept only to be merged elsewhere) holding
        # secrets one level down, under equal key names / indexes
        if rng.random() < 0.15:
            def sec():
                node = self.secret_node()
                return node
            shared = {"t": "m", "a": "defaults", "i": [
                [gd.S("users"), gd.L([gd.M([("name", gd.S("u1")),
                                            ("pw", sec())]),
                                      gd.M([("name", gd.S("u2")),
                                            ("pw", sec())])])],
                [gd.S("primary"), gd.M([("password", sec())])],
                [gd.S("replica"), gd.M([("password", sec())])]]}
            # always merged somewhere: ruamel only writes the anchor of a
            # collection that is actually referenced
            user = {"t": "m", "a": None, "merge": ["defaults"],
                    "i": [[gd.S("extra"), gd.S("x")]]}
            if rng.random() < 0.5:
                # a key of its own that overrides the merged one
                user["i"].append([gd.S("primary"), sec()])
            if doc["t"] == "m":
                doc["i"].append([gd.S("defaults"), shared])
                doc["i"].append([gd.S("prod"), user])
            else:
                doc["i"].append(shared)
                doc["i"].append(user)
        # aliases to anchored secrets, placed later in document order
        for segs, node in planted:
            if not node.get("a"):
                continue
            for _ in range(rng.choice([1, 2])):
                self._add_alias(doc, node["a"], segs)
        return doc

    def _add_alias(self, doc, name, after_segs):
        """Append an alias under the root (always after the anchor)."""
        rng = self.rng
        if doc["t"] == "m":
            used = {k["v"] for k, _ in doc["i"]}
            key = next(k for k in ["ref", "ref2", "ref3", "ref4", "ref5"]
                       if k not in used)
            if rng.random() < 0.5:
                doc["i"].append([gd.S(key), gd.A(name)])
            else:
                doc["i"].append([gd.S(key), gd.L(
                    [gd.S("plain"), gd.A(name)])])
        else:
            if rng.random() < 0.5:
                doc["i"].append(gd.A(name))
            else:
                doc["i"].append(gd.M([("ref", gd.A(name))]))


def gen_rotate(rng, backup=None, peer_faults=None, nsecrets=None,
               repeats=False):
    """One eyaml-rotate-keys scenario."""
    files = {
        W + "old_pub.pem": peer_eyaml.key_file("PUBLIC", "old"),
        W + "old_priv.pem": peer_eyaml.key_file("PRIVATE", "old"),
        W + "new_pub.pem": peer_eyaml.key_file("PUBLIC", "new"),
        W + "new_priv.pem": peer_eyaml.key_file("PRIVATE", "new"),
    }
    nfiles = rng.choice([1, 1, 2, 3])
    targets = []
    models = {}
    sgen = SecretDocGen(rng)
    for idx in range(nfiles):
        doc = sgen.document(nsecrets)
        name = W + "secrets%d.yaml" % idx
        files[name] = gd.to_yaml(doc, start=rng.random() < 0.8)
        targets.append(name)
        models[name] = doc
    backup = (rng.random() < 0.7) if backup is None else backup
    argv = []
    if backup:
        argv.append("-b")
        for name in targets:
            if rng.random() < 0.4:
                _stale_bak(rng, files, name, files[name])
    if rng.random() < 0.2:
        argv.append(rng.choice(["-v", "-q", "-d"]))
    keys = {"-r": "new_priv.pem", "-u": "new_pub.pem",
            "-i": "old_priv.pem", "-c": "old_pub.pem"}
    if repeats is not None and rng.random() < 0.04:
        # one half of the new pair is the old one: nothing can be rotated
        # (the tool is expected to refuse)
        which = rng.choice(["-r", "-u"])
        keys[which] = keys[which].replace("new_", "old_")
    argv += ["-r", W + keys["-r"], "-u", W + keys["-u"],
             "-i", W + keys["-i"], "-c", W + keys["-c"]]
    argv += targets
    if repeats and not peer_faults and rng.random() < 0.15:
        # overlapping globs: one file named twice, maybe spelled differently
        # (never together with a failing eyaml call: a half-rotated first
        # visit plus a second visit plus an I/O fault is three things going
        # wrong, the property speaks of one)
        again = rng.choice(targets)
        argv.append(rng.choice([again, again.replace("/sim/w/", "/sim/w/./"),
                                again.replace("/sim/w/", "/sim/w//")]))
    peer = {"nonce_seed": rng.randrange(1, 60000),
            "block_width": rng.choice([16, 30, 60]),
            "faults": dict(peer_faults or {}), "installed": True}
    return {
        "tool": "eyaml-rotate-keys", "argv": argv, "files": files,
        "unreadable": [], "dirs": [], "stdin": "", "tty": True,
        "stdin_chunks": None, "knobs": gen_knobs(rng), "peer": peer,
        "secrets_seed": 1,
        "meta": {"label": "success", "targets": targets, "backup": backup,
                 "keep": [], "family": "rotate"},
        "models": models,
    }
