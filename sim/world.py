"""
The simulated process world for yamlpath's console tools.

One *run* executes one real ``yamlpath.commands.<tool>.main()`` to completion
with every channel it can touch replaced by an object this module owns:

* the file system     -> ``World.fs`` (dict path -> bytearray) under /sim/
* file objects        -> real ``io`` buffering/encoding stacked on ``SimRaw``
* stdin/stdout/stderr -> scripted / captured streams
* argv, process exit  -> generated list / caught ``SystemExit``
* SIGINT              -> ``KeyboardInterrupt`` raised from a line tracer
* the eyaml binary    -> an in-process fake peer (sim/peer_eyaml.py)
* ``secrets``         -> a seeded stand-in

Every raw I/O action is a numbered *step*.  A fault plan names steps at which
something goes wrong.  Nothing here draws random numbers: the caller decides
the world, the knobs and the fault plan (from its seed), so one recipe is one
exactly repeatable execution.
"""
import builtins
import errno
import hashlib
import io
import os
import posixpath
import shutil
import sys
import traceback
from contextlib import contextmanager

SIM_ROOT = "/sim/"

OSERROR_CODES = {
    "EIO": errno.EIO, "ENOSPC": errno.ENOSPC, "EACCES": errno.EACCES,
    "EISDIR": errno.EISDIR, "EMFILE": errno.EMFILE, "ENOENT": errno.ENOENT,
    "EPIPE": errno.EPIPE,
}

# Step kinds at which a fault may be planned.  ("stat" steps -- exists/isfile/
# access -- are recorded but never fail: os.path swallows their errors.)
WRITE_KINDS = ("write", "tmp-write")
READ_KINDS = ("read", "tmp-read", "stdin-read")
MUTATING_KINDS = ("open-w", "remove", "write", "copystat")
FAULTABLE_KINDS = (
    "open-r", "open-w", "read", "write", "remove", "copystat",
    "tmp-create", "tmp-write", "tmp-read", "tmp-seek", "stdin-read",
)


class SimCrash(BaseException):
    """The simulated process is killed at this instant (kill -9, OOM)."""


class SimFault:
    """
    One planned fault.

    kind: oserror | torn-write | short | crash-before | crash-after |
          crash-torn | assert | interrupt
    step: index of the I/O step (for interrupt: index of the traced line)
    arg:  errno name for oserror; kept fraction (0..1) for torn/short
    """

    __slots__ = ("kind", "step", "arg", "fired")

    def __init__(self, kind, step, arg=None):
        self.kind = kind
        self.step = step
        self.arg = arg
        self.fired = False

    def to_json(self):
        return {"kind": self.kind, "step": self.step, "arg": self.arg}

    @staticmethod
    def from_json(obj):
        return SimFault(obj["kind"], obj["step"], obj.get("arg"))


class SimRaw(io.RawIOBase):
    """Raw file whose readinto/write/close are the simulator's I/O steps."""

    def __init__(self, world, path, readable, writable, kindpfx=""):
        super().__init__()
        self.world = world
        self.path = path
        self._r = readable
        self._w = writable
        self.pos = 0
        self.kp = kindpfx
        self.name = path

    def readable(self):
        return self._r

    def writable(self):
        return self._w

    def seekable(self):
        return True

    def isatty(self):
        return False

    def _buf(self):
        world = self.world
        if self.kp:
            return world.anon[self.path]
        return world.fs[self.path]

    def readinto(self, b):
        world = self.world
        want = len(b)
        act = world.step(self.kp + "read", self.path, want)
        try:
            data = self._buf()
        except KeyError:
            data = b""
        chunk = bytes(data[self.pos:self.pos + want])
        if act is not None and act[0] == "short" and len(chunk) > 1:
            chunk = chunk[:max(1, int(len(chunk) * act[1]))]
        n = len(chunk)
        b[:n] = chunk
        self.pos += n
        world._after(act)
        return n

    def write(self, b):
        world = self.world
        data = bytes(b)
        act = world.step(self.kp + "write", self.path, len(data))
        if world.frozen or world.dead:
            return len(data)
        if act is not None:
            if act[0] == "short" and len(data) > 1:
                data = data[:max(1, int(len(data) * act[1]))]
            elif act[0] in ("torn", "crash-torn"):
                keep = int(len(data) * act[1])
                self._store(data[:keep])
                if act[0] == "torn":
                    raise OSError(errno.ENOSPC, "No space left on device (sim)")
                world.freeze()
                raise SimCrash("crash-torn at step %d" % (world.k - 1))
        self._store(data)
        if act is not None and act[0] == "crash-after":
            world.freeze()
            raise SimCrash("crash-after at step %d" % (world.k - 1))
        return len(data)

    def _store(self, data):
        try:
            buf = self._buf()
        except KeyError:
            # unlinked while open: writes go nowhere visible
            return
        end = self.pos + len(data)
        if len(buf) < self.pos:
            buf.extend(b"\0" * (self.pos - len(buf)))
        buf[self.pos:end] = data
        self.pos = end
        if not self.kp:
            self.world.touch(self.path)

    def seek(self, off, whence=0):
        act = None
        if self.kp:
            act = self.world.step("tmp-seek", self.path, off)
            self.world._after(act)
        if whence == 0:
            self.pos = off
        elif whence == 1:
            self.pos += off
        else:
            try:
                self.pos = len(self._buf()) + off
            except KeyError:
                self.pos = 0
        return self.pos

    def tell(self):
        return self.pos

    def close(self):
        if not self.closed:
            super().close()
            world = self.world
            if not world.dead:
                world.step(self.kp + "close", self.path, 0, faultable=False)
            if self.kp:
                world.anon.pop(self.path, None)


class SimStdinRaw(io.RawIOBase):
    """Scripted standard input: bytes, tty-ness and short-read chunking."""

    def __init__(self, world, data, tty, chunks):
        super().__init__()
        self.world = world
        self.data = data
        self.tty = tty
        self.chunks = list(chunks or [])
        self.pos = 0
        self.name = "<stdin>"

    def readable(self):
        return True

    def isatty(self):
        return self.tty

    def fileno(self):
        raise io.UnsupportedOperation("fileno")

    def readinto(self, b):
        world = self.world
        want = len(b)
        if self.tty:
            # A read on an interactive terminal with nobody typing blocks
            # for ever; the simulator records that and reports end-of-file.
            world.flags.add("blocked-on-tty")
            world.step("stdin-read", "<stdin>", 0, faultable=False)
            return 0
        limit = want
        if self.chunks:
            limit = min(want, max(1, self.chunks.pop(0)))
        world.step("stdin-read", "<stdin>", limit)
        chunk = self.data[self.pos:self.pos + limit]
        n = len(chunk)
        b[:n] = chunk
        self.pos += n
        return n


class _Capture(io.TextIOWrapper):
    """Captured stdout/stderr: a real text layer over a byte sink."""

    def __init__(self):
        self._sink = io.BytesIO()
        super().__init__(self._sink, encoding="utf-8", newline="\n",
                         write_through=True)

    def text(self):
        try:
            self.flush()
        except ValueError:
            pass
        return self._sink.getvalue().decode("utf-8", "replace")

    def isatty(self):
        return False


class _SeededSecrets:
    """Deterministic stand-in for the ``secrets`` module."""

    def __init__(self, seed):
        self._state = int(seed) & 0xFFFFFFFF or 1

    def choice(self, seq):
        # xorshift32: nothing here needs to be good, only repeatable
        x = self._state
        x ^= (x << 13) & 0xFFFFFFFF
        x ^= x >> 17
        x ^= (x << 5) & 0xFFFFFFFF
        self._state = x
        return seq[x % len(seq)]


class _TempfileSeam:
    def __init__(self, world):
        self._world = world

    def TemporaryFile(self, *args, **kwargs):  # noqa: N802 (mirrors tempfile)
        return self._world.temporary_file()


class Result:
    """Everything observable about one finished run."""

    __slots__ = ("exit", "stdout", "stderr", "trace", "fs", "flags",
                 "traceback", "peer_log", "lines", "steps", "fired",
                 "step_lines")

    def digest(self):
        h = hashlib.sha256()
        h.update(repr(self.exit).encode())
        h.update(self.stdout.encode("utf-8", "replace"))
        h.update(b"\0")
        h.update(self.stderr.encode("utf-8", "replace"))
        h.update(b"\0")
        for ev in self.trace:
            h.update(repr(ev).encode())
        for path in sorted(self.fs):
            h.update(path.encode())
            h.update(b"\0")
            h.update(self.fs[path])
        h.update(repr(sorted(self.flags)).encode())
        h.update(repr(self.peer_log).encode())
        return h.hexdigest()


class World:
    """The simulated file system, streams, fault plan and step recorder."""

    def __init__(self, files=None, *, unreadable=(), dirs=(), stdin=b"",
                 tty=True, stdin_chunks=None, knobs=None, faults=(),
                 peer=None, secrets_seed=1):
        self.fs = {}
        for path, data in (files or {}).items():
            if isinstance(data, str):
                data = data.encode("utf-8")
            self.fs[path] = bytearray(data)
        self.unreadable = set(unreadable)
        self.dirs = set(dirs)
        # modification times: every pre-existing file carries the same one
        # (trees restored with cp -p / rsync -t / tar look like that); each
        # later write advances a logical clock
        self.mtime = {path: 1000 for path in self.fs}
        self.clock = 2000
        self.anon = {}
        self.anon_n = 0
        self.stdin_bytes = stdin.encode("utf-8") if isinstance(stdin, str) \
            else bytes(stdin)
        self.tty = tty
        self.stdin_chunks = stdin_chunks
        knobs = dict(knobs or {})
        self.text_buf = int(knobs.get("text_buf", 8192))
        self.bin_buf = int(knobs.get("bin_buf", 8192))
        self.copy_chunk = int(knobs.get("copy_chunk", 65536))
        self.write_through = bool(knobs.get("write_through", False))
        self.faults = {}
        self.interrupt_at = None
        self.interrupt_fault = None
        for flt in faults:
            flt.fired = False
            if flt.kind == "interrupt":
                self.interrupt_at = flt.step
                self.interrupt_fault = flt
            else:
                self.faults[flt.step] = flt
        self.peer = peer
        self.secrets_seed = secrets_seed
        self.k = 0
        self.trace = []
        self.frozen = False
        self.dead = False
        self.flags = set()
        self.lines = 0
        self.count_lines = False
        self.step_lines = []
        self.frozen_fs = None

    # ------------------------------------------------------------------
    # steps and faults
    # ------------------------------------------------------------------
    def step(self, kind, path, nbytes, faultable=True):
        """Record one I/O step; apply any fault planned for it."""
        if self.dead:
            return None
        k = self.k
        self.k = k + 1
        if self.count_lines:
            self.step_lines.append((k, kind, self.lines))
        flt = self.faults.get(k) if faultable and not self.frozen else None
        if flt is None:
            self.trace.append((k, kind, path, nbytes, None))
            return None
        fkind = flt.kind
        # faults that only make sense on particular step kinds degrade to
        # "did not fire" elsewhere, so a plan is never silently mis-applied
        if fkind in ("torn-write", "crash-torn", "assert") \
                and kind not in WRITE_KINDS:
            self.trace.append((k, kind, path, nbytes, None))
            return None
        if fkind == "short" and kind not in WRITE_KINDS + READ_KINDS:
            self.trace.append((k, kind, path, nbytes, None))
            return None
        flt.fired = True
        self.trace.append((k, kind, path, nbytes, fkind))
        if fkind == "oserror":
            code = OSERROR_CODES[flt.arg or "EIO"]
            raise OSError(code, os.strerror(code) + " (sim)", path)
        if fkind == "assert":
            raise AssertionError("simulated emitter assertion")
        if fkind == "crash-before":
            self.freeze()
            raise SimCrash("crash-before at step %d" % k)
        if fkind == "crash-after":
            if kind in WRITE_KINDS:
                return ("crash-after", None)
            # non-write steps: the caller performs the effect, then asks
            return ("crash-after-pending", None)
        if fkind == "torn-write":
            return ("torn", float(flt.arg if flt.arg is not None else 0.5))
        if fkind == "crash-torn":
            return ("crash-torn",
                    float(flt.arg if flt.arg is not None else 0.5))
        if fkind == "short":
            return ("short", float(flt.arg if flt.arg is not None else 0.5))
        raise ValueError("unknown fault kind " + fkind)

    def _after(self, act):
        """Finish a non-write step that carries a crash-after fault."""
        if act is not None and act[0] == "crash-after-pending":
            self.freeze()
            raise SimCrash("crash-after at step %d" % (self.k - 1))

    def freeze(self):
        """Durable state is what completed steps wrote; nothing later lands."""
        if not self.frozen:
            self.frozen = True
            self.frozen_fs = {p: bytes(d) for p, d in self.fs.items()}

    # ------------------------------------------------------------------
    # file system seams
    # ------------------------------------------------------------------
    @staticmethod
    def owns(path):
        return isinstance(path, str) and \
            posixpath.normpath(path).startswith(SIM_ROOT)

    @staticmethod
    def norm(path):
        """One file, one name: '/sim/w/./x', '/sim/w//x' are '/sim/w/x'."""
        return posixpath.normpath(path)

    def sim_open(self, path, mode="r", buffering=-1, encoding=None,
                 errors=None, newline=None, closefd=True, opener=None):
        path = self.norm(path)
        binary = "b" in mode
        writing = any(c in mode for c in "wax+")
        if path in self.dirs:
            self.step("open-w" if writing else "open-r", path, 0,
                      faultable=False)
            raise IsADirectoryError(errno.EISDIR, "Is a directory", path)
        if writing:
            if "w" not in mode:
                raise NotImplementedError("sim_open mode " + mode)
            act = self.step("open-w", path, 0)
            parent = posixpath.dirname(path)
            if parent + "/" != SIM_ROOT and parent not in self.dirs \
                    and not any(p.startswith(parent + "/") for p in self.fs):
                raise FileNotFoundError(errno.ENOENT, "No such directory",
                                        path)
            if path in self.unreadable and path in self.fs:
                raise PermissionError(errno.EACCES, "Permission denied", path)
            if not (self.frozen or self.dead):
                self.fs[path] = bytearray()      # O_TRUNC | O_CREAT
                self.touch(path)
            self._after(act)
            raw = SimRaw(self, path, False, True)
            buf = io.BufferedWriter(raw, buffer_size=max(1, self.bin_buf
                                    if binary else self.text_buf))
            if binary:
                return buf
            txt = io.TextIOWrapper(buf, encoding=encoding or "utf-8",
                                   errors=errors, newline=newline,
                                   write_through=self.write_through)
            try:
                txt._CHUNK_SIZE = max(1, self.text_buf)
            except (AttributeError, ValueError):
                pass
            return txt
        act = self.step("open-r", path, 0)
        if path not in self.fs:
            raise FileNotFoundError(errno.ENOENT, "No such file or directory",
                                    path)
        if path in self.unreadable:
            raise PermissionError(errno.EACCES, "Permission denied", path)
        self._after(act)
        raw = SimRaw(self, path, True, False)
        buf = io.BufferedReader(raw, buffer_size=max(1, self.bin_buf))
        if binary:
            return buf
        return io.TextIOWrapper(buf, encoding=encoding or "utf-8",
                                errors=errors, newline=newline)

    def touch(self, path):
        self.clock += 1
        self.mtime[path] = self.clock

    def stat(self, path, *args, **kwargs):
        """os.stat for simulated paths (size, mtime, regular file/dir)."""
        import stat as statmod
        if not self.owns(path):
            return _REAL_STAT(path, *args, **kwargs)
        path = self.norm(path)
        self.step("stat", path, 0, faultable=False)
        if path in self.dirs:
            return os.stat_result((statmod.S_IFDIR | 0o755, 0, 0, 1, 0, 0, 0,
                                   1000, 1000, 1000))
        if path not in self.fs:
            raise FileNotFoundError(errno.ENOENT,
                                    "No such file or directory", path)
        when = self.mtime.get(path, 1000)
        return os.stat_result((statmod.S_IFREG | 0o644, 0, 0, 1, 0, 0,
                               len(self.fs[path]), when, when, when))

    def temporary_file(self):
        self.anon_n += 1
        name = "<tmp:%d>" % self.anon_n
        act = self.step("tmp-create", name, 0)
        self.anon[name] = bytearray()
        self._after(act)
        raw = SimRaw(self, name, True, True, kindpfx="tmp-")
        return io.BufferedRandom(raw, buffer_size=max(1, self.bin_buf))

    def exists(self, path):
        if not self.owns(path):
            return os.path.exists(path)
        path = self.norm(path)
        self.step("stat", path, 0, faultable=False)
        return path in self.fs or path in self.dirs

    def isfile(self, path):
        if not self.owns(path):
            return os.path.isfile(path)
        path = self.norm(path)
        self.step("stat", path, 0, faultable=False)
        return path in self.fs

    def access(self, path, mode):
        if not self.owns(path):
            return os.access(path, mode)
        path = self.norm(path)
        self.step("stat", path, 0, faultable=False)
        if path in self.dirs:
            return True
        if path not in self.fs:
            return False
        if mode & os.R_OK and path in self.unreadable:
            return False
        if mode & os.X_OK:
            return path in self.executables
        return True

    executables = frozenset()

    def remove(self, path):
        if not self.owns(path):
            raise PermissionError(errno.EACCES, "outside the simulation", path)
        path = self.norm(path)
        act = self.step("remove", path, 0)
        if path in self.dirs:
            raise IsADirectoryError(errno.EISDIR, "Is a directory", path)
        if path not in self.fs:
            raise FileNotFoundError(errno.ENOENT, "No such file or directory",
                                    path)
        if not (self.frozen or self.dead):
            del self.fs[path]
            self.mtime.pop(path, None)
        self._after(act)

    def copy2(self, src, dst):
        """shutil.copy2: open src, open dst (truncating), pump, copystat."""
        src = self.norm(src)
        dst = self.norm(dst)
        if dst in self.dirs:
            # shutil.copy2 copies INTO an existing directory
            dst = dst + "/" + posixpath.basename(src)
        if src == dst:
            raise shutil.SameFileError(
                "{!r} and {!r} are the same file".format(src, dst))
        self.flags.add("copy2")
        with self.sim_open(src, "rb") as fsrc:
            with self.sim_open(dst, "wb") as fdst:
                # one raw write per chunk, as sendfile()/copyfileobj() would
                while True:
                    chunk = fsrc.read(self.copy_chunk)
                    if not chunk:
                        break
                    fdst.write(chunk)
                    fdst.flush()
        act = self.step("copystat", dst, 0)
        if not (self.frozen or self.dead):
            self.mtime[dst] = self.mtime.get(src, 1000)
        self._after(act)
        return dst

    def copyfileobj(self, fsrc, fdst, length=0):
        shutil.copyfileobj(fsrc, fdst, self.copy_chunk)

    # ------------------------------------------------------------------
    # snapshots
    # ------------------------------------------------------------------
    def snapshot(self):
        src = self.frozen_fs if self.frozen else self.fs
        return {p: bytes(d) for p, d in src.items()}


# ----------------------------------------------------------------------
# the process runner
# ----------------------------------------------------------------------
TOOLS = {
    "yaml-get": "yamlpath.commands.yaml_get",
    "yaml-set": "yamlpath.commands.yaml_set",
    "yaml-merge": "yamlpath.commands.yaml_merge",
    "yaml-diff": "yamlpath.commands.yaml_diff",
    "yaml-validate": "yamlpath.commands.yaml_validate",
    "yaml-paths": "yamlpath.commands.yaml_paths",
    "eyaml-rotate-keys": "yamlpath.commands.eyaml_rotate_keys",
}

_REAL_OPEN = builtins.open
_REAL_STAT = os.stat
_TRACED_DIRS = None


def _traced_dirs():
    global _TRACED_DIRS
    if _TRACED_DIRS is None:
        import yamlpath
        import ruamel.yaml
        _TRACED_DIRS = (
            os.path.dirname(os.path.abspath(yamlpath.__file__)) + os.sep,
            os.path.dirname(os.path.abspath(ruamel.yaml.__file__)) + os.sep,
        )
    return _TRACED_DIRS


def _import_tool(tool):
    import importlib
    return importlib.import_module(TOOLS[tool])


@contextmanager
def _patched(world, tool_mod, argv0, argv):
    """Rebind every seam to the world; restore all of them afterwards."""
    import yamlpath.common.parsers as parsers
    import yamlpath.eyaml.eyamlprocessor as eproc
    saved = []

    def setattr_(obj, name, value):
        saved.append((obj, name, getattr(obj, name, _MISSING)))
        setattr(obj, name, value)

    def routed_open(file, mode="r", *args, **kwargs):
        if World.owns(file) and not world.dead:
            return world.sim_open(file, mode, *args, **kwargs)
        return _REAL_OPEN(file, mode, *args, **kwargs)

    stdin = io.TextIOWrapper(
        io.BufferedReader(
            SimStdinRaw(world, world.stdin_bytes, world.tty,
                        world.stdin_chunks),
            buffer_size=max(1, world.bin_buf)),
        encoding="utf-8")
    stdout = _Capture()
    stderr = _Capture()
    try:
        setattr_(builtins, "open", routed_open)
        setattr_(os, "stat", world.stat)
        for mod in set([tool_mod] + [sys.modules[m] for m in TOOLS.values()
                                     if m in sys.modules]):
            for name, repl in (("remove", world.remove),
                               ("exists", world.exists),
                               ("isfile", world.isfile),
                               ("access", world.access),
                               ("copy2", world.copy2),
                               ("copyfileobj", world.copyfileobj)):
                if hasattr(mod, name):
                    setattr_(mod, name, repl)
            if hasattr(mod, "tempfile"):
                setattr_(mod, "tempfile", _TempfileSeam(world))
            if hasattr(mod, "secrets"):
                setattr_(mod, "secrets", _SeededSecrets(world.secrets_seed))
        setattr_(parsers, "stdin", stdin)
        if world.peer is not None:
            setattr_(eproc, "run", world.peer.run)
            setattr_(eproc, "which", world.peer.which)
            setattr_(eproc, "access", world.peer.access)
        else:
            setattr_(eproc, "which", lambda name: None)
            setattr_(eproc, "access", world.access)
        setattr_(sys, "stdin", stdin)
        setattr_(sys, "stdout", stdout)
        setattr_(sys, "stderr", stderr)
        setattr_(sys, "argv", [argv0] + list(argv))
        saved_home = os.environ.get("HOME")
        os.environ["HOME"] = "/sim/w"       # "~" expands into the simulation
        yield stdout, stderr
    finally:
        if "saved_home" in locals():
            if saved_home is None:
                os.environ.pop("HOME", None)
            else:
                os.environ["HOME"] = saved_home
        for obj, name, old in reversed(saved):
            if old is _MISSING:
                delattr(obj, name)
            else:
                setattr(obj, name, old)


_MISSING = object()


def run_tool(world, tool, argv):
    """Execute one real console entry point inside ``world``."""
    mod = _import_tool(tool)
    res = Result()
    res.traceback = None
    tracer = None
    if world.interrupt_at is not None or world.count_lines:
        dirs = _traced_dirs()
        target = world.interrupt_at
        flt = world.interrupt_fault

        def local(frame, event, arg):
            if event == "line":
                n = world.lines
                world.lines = n + 1
                if n == target and not flt.fired:
                    flt.fired = True
                    world.trace.append((world.k, "interrupt",
                                        "line:%d" % n, 0, "interrupt"))
                    raise KeyboardInterrupt()
            return local

        def tracer(frame, event, arg):
            if frame.f_code.co_filename.startswith(dirs):
                return local
            return None

    with _patched(world, mod, tool, argv) as (stdout, stderr):
        try:
            if tracer is not None:
                sys.settrace(tracer)
            try:
                mod.main()
            finally:
                if tracer is not None:
                    sys.settrace(None)
            res.exit = 0
        except SystemExit as ex:
            code = ex.code
            if code is None:
                res.exit = 0
            elif isinstance(code, int):
                res.exit = code
            else:
                sys.stderr.write(str(code) + "\n")
                res.exit = 1
        except SimCrash:
            res.exit = "killed"
        except KeyboardInterrupt:
            res.exit = 130
            world.flags.add("uncaught-interrupt")
        except Exception as ex:  # pylint: disable=broad-except
            res.exit = 1
            res.traceback = "".join(
                traceback.format_exception_only(type(ex), ex)).strip()
            world.flags.add("uncaught:" + type(ex).__name__)
        res.stdout = stdout.text()
        res.stderr = stderr.text()
    res.fs = world.snapshot()
    world.dead = True
    res.trace = list(world.trace)
    res.flags = set(world.flags)
    res.peer_log = list(world.peer.log) if world.peer is not None else []
    res.lines = world.lines
    res.step_lines = list(world.step_lines)
    res.steps = world.k
    res.fired = [f.to_json() for f in
                 list(world.faults.values())
                 + ([world.interrupt_fault] if world.interrupt_fault else [])
                 if f.fired]
    return res


@contextmanager
def fs_visible(files):
    """
    Make simulated files readable through the built-in ``open`` (and nothing
    else): lets a *reference* computation that runs outside any tool -- e.g.
    ``MergerConfig`` reading its INI file through configparser -- see the same
    bytes the tool saw.
    """
    world = World(files)

    def routed_open(file, mode="r", *args, **kwargs):
        if World.owns(file):
            return world.sim_open(file, mode, *args, **kwargs)
        return _REAL_OPEN(file, mode, *args, **kwargs)
    builtins.open = routed_open
    try:
        yield world
    finally:
        builtins.open = _REAL_OPEN
        world.dead = True
