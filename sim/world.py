"""
The simulated process world for yamlpath's console tools.

One *run* executes one real ``yamlpath.commands.<tool>.main()`` to completion
with every channel it can touch replaced by an object this module owns:

* the file system     -> ``World.fs`` (dict path -> bytearray) under /sim/
* file objects        -> real ``io`` buffering/encoding stacked on ``SimRaw``
* stdin/stdout/stderr -> scripted / captured streams
* argv, process exit  -> generated list / caught ``SystemExit``
* SIGINT              -> ``KeyboardInterrupt`` raised from a line tracer
* the eyaml binary    -> an in-process fake peer (sim/peer_eyaml.py)
* ``secrets``         -> a seeded stand-in

Every raw I/O action is a numbered *step*.  A fault plan names steps at which
something goes wrong.  Nothing here draws random numbers: the caller decides
the world, the knobs and the fault plan (from its seed), so one recipe is one
exactly repeatable execution.
"""
import builtins
import errno
import hashlib
import io
import os
import posixpath
import shutil
import sys
import traceback
from contextlib import contextmanager

SIM_ROOT = "/sim/"

OSERROR_CODES = {
    "EIO": errno.EIO, "ENOSPC": errno.ENOSPC, "EACCES": errno.EACCES,
    "EISDIR": errno.EISDIR, "EMFILE": errno.EMFILE, "ENOENT": errno.ENOENT,
    "EPIPE": errno.EPIPE,
}

# Step kinds at which a fault may be planned.  ("stat" steps -- exists/isfile/
# access -- are recorded but never fail: os.path swallows their errors.)
WRITE_KINDS = ("write", "tmp-write")
READ_KINDS = ("read", "tmp-read", "stdin-read")
MUTATING_KINDS = ("open-w", "remove", "write", "copystat")
# Steps that change the visible file system when they take effect (data
# writes are WRITE_KINDS): what "nothing was touched before the fault" means.
EFFECT_KINDS = ("open-w", "remove", "copystat", "rename", "chmod", "utime",
                "truncate", "mkdir", "rmdir", "symlink")
FAULTABLE_KINDS = (
    "open-r", "open-w", "read", "write", "remove", "copystat",
    "tmp-create", "tmp-write", "tmp-read", "tmp-seek", "stdin-read",
    "rename", "chmod", "utime", "truncate", "fsync", "mkdir", "rmdir",
    "close-w", "symlink",
)
FD_BASE = 100000        # simulated descriptors live far above real ones
TMP_DIR = "/sim/tmp"    # the simulated system temporary directory


class SimCrash(BaseException):
    """The simulated process is killed at this instant (kill -9, OOM)."""


class SimFault:
    """
    One planned fault.

    kind: oserror | torn-write | short | crash-before | crash-after |
          crash-torn | assert | interrupt
    step: index of the I/O step (for interrupt: index of the traced line)
    arg:  errno name for oserror; kept fraction (0..1) for torn/short
    """

    __slots__ = ("kind", "step", "arg", "fired")

    def __init__(self, kind, step, arg=None):
        self.kind = kind
        self.step = step
        self.arg = arg
        self.fired = False

    def to_json(self):
        return {"kind": self.kind, "step": self.step, "arg": self.arg}

    @staticmethod
    def from_json(obj):
        return SimFault(obj["kind"], obj["step"], obj.get("arg"))


class SimRaw(io.RawIOBase):
    """Raw file whose readinto/write/close are the simulator's I/O steps."""

    def __init__(self, world, path, readable, writable, kindpfx="",
                 fd=None, append=False):
        super().__init__()
        self.world = world
        self.path = path
        self._r = readable
        self._w = writable
        self.pos = 0
        self.kp = kindpfx
        self.name = path
        self.fd = fd
        self.append = append
        self.quiet = False      # a per-call view of a descriptor: no close

    def fileno(self):
        if self.fd is None:
            self.fd = self.world.new_fd(self.path, self.kp)
        return self.fd

    def readable(self):
        return self._r

    def writable(self):
        return self._w

    def seekable(self):
        return True

    def isatty(self):
        return False

    def _buf(self):
        world = self.world
        if self.kp:
            return world.anon[self.path]
        return world.fs[self.path]

    def readinto(self, b):
        world = self.world
        want = len(b)
        act = world.step(self.kp + "read", self.path, want)
        try:
            data = self._buf()
        except KeyError:
            data = b""
        chunk = bytes(data[self.pos:self.pos + want])
        if act is not None and act[0] == "short" and len(chunk) > 1:
            chunk = chunk[:max(1, int(len(chunk) * act[1]))]
        n = len(chunk)
        b[:n] = chunk
        self.pos += n
        world._after(act)
        return n

    def write(self, b):
        world = self.world
        data = bytes(b)
        act = world.step(self.kp + "write", self.path, len(data))
        if world.frozen or world.dead:
            return len(data)
        if act is not None:
            if act[0] == "short" and len(data) > 1:
                data = data[:max(1, int(len(data) * act[1]))]
            elif act[0] in ("torn", "crash-torn"):
                keep = int(len(data) * act[1])
                self._store(data[:keep])
                if act[0] == "torn":
                    raise OSError(errno.ENOSPC, "No space left on device (sim)")
                world.freeze()
                raise SimCrash("crash-torn at step %d" % (world.k - 1))
        self._store(data)
        if act is not None and act[0] == "crash-after":
            world.freeze()
            raise SimCrash("crash-after at step %d" % (world.k - 1))
        return len(data)

    def _store(self, data):
        try:
            buf = self._buf()
        except KeyError:
            # unlinked while open: writes go nowhere visible
            return
        if self.append:
            self.pos = len(buf)
        end = self.pos + len(data)
        if len(buf) < self.pos:
            buf.extend(b"\0" * (self.pos - len(buf)))
        buf[self.pos:end] = data
        self.pos = end
        if not self.kp:
            self.world.touch(self.path)

    def seek(self, off, whence=0):
        act = None
        if self.kp:
            act = self.world.step("tmp-seek", self.path, off)
            self.world._after(act)
        if whence == 0:
            self.pos = off
        elif whence == 1:
            self.pos += off
        else:
            try:
                self.pos = len(self._buf()) + off
            except KeyError:
                self.pos = 0
        return self.pos

    def tell(self):
        return self.pos

    def truncate(self, size=None):
        size = self.pos if size is None else size
        world = self.world
        act = world.step(self.kp + "truncate" if self.kp else "truncate",
                         self.path, size, faultable=not self.kp)
        if not (world.frozen or world.dead):
            try:
                buf = self._buf()
                if len(buf) > size:
                    del buf[size:]
                else:
                    buf.extend(b"\0" * (size - len(buf)))
                if not self.kp:
                    world.touch(self.path)
            except KeyError:
                pass
        world._after(act)
        return size

    def close(self):
        if not self.closed:
            super().close()
            if self.quiet:
                return
            world = self.world
            if self.fd is not None:
                world.fds.pop(self.fd, None)
            if self.kp:
                if not world.dead:
                    world.step(self.kp + "close", self.path, 0,
                               faultable=False)
                world.anon.pop(self.path, None)
            elif not world.dead:
                # close(2) of a written file can report a deferred write
                # error (quota, NFS); of a file only read it does not
                if self._w:
                    act = world.step("close-w", self.path, 0)
                    world._after(act)
                else:
                    world.step("close", self.path, 0, faultable=False)


class SimStdinRaw(io.RawIOBase):
    """Scripted standard input: bytes, tty-ness and short-read chunking."""

    def __init__(self, world, data, tty, chunks):
        super().__init__()
        self.world = world
        self.data = data
        self.tty = tty
        self.chunks = list(chunks or [])
        self.pos = 0
        self.name = "<stdin>"

    def readable(self):
        return True

    def isatty(self):
        return self.tty

    def fileno(self):
        raise io.UnsupportedOperation("fileno")

    def readinto(self, b):
        world = self.world
        want = len(b)
        if self.tty:
            # A read on an interactive terminal with nobody typing blocks
            # for ever; the simulator records that and reports end-of-file.
            world.flags.add("blocked-on-tty")
            world.step("stdin-read", "<stdin>", 0, faultable=False)
            return 0
        limit = want
        if self.chunks:
            limit = min(want, max(1, self.chunks.pop(0)))
        world.step("stdin-read", "<stdin>", limit)
        chunk = self.data[self.pos:self.pos + limit]
        n = len(chunk)
        b[:n] = chunk
        self.pos += n
        return n


class _Capture(io.TextIOWrapper):
    """Captured stdout/stderr: a real text layer over a byte sink."""

    def __init__(self):
        self._sink = io.BytesIO()
        super().__init__(self._sink, encoding="utf-8", newline="\n",
                         write_through=True)

    def text(self):
        try:
            self.flush()
        except ValueError:
            pass
        return self._sink.getvalue().decode("utf-8", "replace")

    def isatty(self):
        return False


class _SeededSecrets:
    """Deterministic stand-in for the ``secrets`` module."""

    def __init__(self, seed):
        self._state = int(seed) & 0xFFFFFFFF or 1

    def choice(self, seq):
        # xorshift32: nothing here needs to be good, only repeatable
        x = self._state
        x ^= (x << 13) & 0xFFFFFFFF
        x ^= x >> 17
        x ^= (x << 5) & 0xFFFFFFFF
        self._state = x
        return seq[x % len(seq)]


class _TempfileSeam:
    def __init__(self, world):
        self._world = world

    def TemporaryFile(self, *args, **kwargs):  # noqa: N802 (mirrors tempfile)
        return self._world.temporary_file()

    def NamedTemporaryFile(self, *args, **kwargs):  # noqa: N802
        return self._world.named_temporary_file(*args, **kwargs)

    def mkstemp(self, *args, **kwargs):
        return self._world.mkstemp(*args, **kwargs)

    def gettempdir(self):
        return TMP_DIR

    def __getattr__(self, name):
        import tempfile as real
        return getattr(real, name)


class _NamedTemp:
    """tempfile.NamedTemporaryFile over the simulated file system."""

    def __init__(self, world, stream, name, delete):
        self._world = world
        self.file = stream
        self.name = name
        self.delete = delete
        self._closed = False

    def __getattr__(self, attr):
        return getattr(self.file, attr)

    def __iter__(self):
        return iter(self.file)

    def __enter__(self):
        return self

    def __exit__(self, *exc):
        self.close()
        return False

    def close(self):
        if self._closed:
            return
        self._closed = True
        try:
            self.file.close()
        finally:
            if self.delete and self.name in self._world.fs \
                    and not self._world.dead:
                self._world.remove(self.name)


class Result:
    """Everything observable about one finished run."""

    __slots__ = ("exit", "stdout", "stderr", "trace", "fs", "flags",
                 "traceback", "peer_log", "lines", "steps", "fired",
                 "step_lines")

    def digest(self):
        h = hashlib.sha256()
        h.update(repr(self.exit).encode())
        h.update(self.stdout.encode("utf-8", "replace"))
        h.update(b"\0")
        h.update(self.stderr.encode("utf-8", "replace"))
        h.update(b"\0")
        for ev in self.trace:
            h.update(repr(ev).encode())
        for path in sorted(self.fs):
            h.update(path.encode())
            h.update(b"\0")
            h.update(self.fs[path])
        h.update(repr(sorted(self.flags)).encode())
        h.update(repr(self.peer_log).encode())
        return h.hexdigest()


def _ino(path):
    """A stable inode number per (resolved) name: os.path.samefile works."""
    import zlib
    return zlib.crc32(path.encode("utf-8", "surrogateescape")) + 2


class _Dirs(set):
    """
    Directories: the registered ones, the mount points, and every prefix of a
    file's path (a file's parent directory exists without being declared).
    """

    def __init__(self, names, files):
        super().__init__(names)
        self._files = files

    def __contains__(self, path):
        if set.__contains__(self, path) or path in ("/sim", "/sim/w"):
            return True
        if not isinstance(path, str):
            return False
        prefix = path + "/"
        return any(name.startswith(prefix) for name in self._files)


class World:
    """The simulated file system, streams, fault plan and step recorder."""

    def __init__(self, files=None, *, unreadable=(), dirs=(), stdin=b"",
                 tty=True, stdin_chunks=None, knobs=None, faults=(),
                 peer=None, secrets_seed=1, links=None):
        # symbolic links (last path component only): name -> target
        self.links = dict(links or {})
        self.frozen_links = None
        self.fs = {}
        for path, data in (files or {}).items():
            if isinstance(data, str):
                data = data.encode("utf-8")
            self.fs[path] = bytearray(data)
        self.unreadable = set(unreadable)
        self.dirs = _Dirs(dirs, self.fs)
        # modification times: every pre-existing file carries the same one
        # (trees restored with cp -p / rsync -t / tar look like that); each
        # later write advances a logical clock
        self.mtime = {path: 1000 for path in self.fs}
        self.clock = 2000
        self.anon = {}
        self.anon_n = 0
        self.fds = {}
        self.fd_n = 0
        self.named_tmp_n = 0
        self.modes = {}
        self.dirs.add(TMP_DIR)
        self.stdin_bytes = stdin.encode("utf-8") if isinstance(stdin, str) \
            else bytes(stdin)
        self.tty = tty
        self.stdin_chunks = stdin_chunks
        knobs = dict(knobs or {})
        self.text_buf = int(knobs.get("text_buf", 8192))
        self.bin_buf = int(knobs.get("bin_buf", 8192))
        self.copy_chunk = int(knobs.get("copy_chunk", 65536))
        self.write_through = bool(knobs.get("write_through", False))
        self.faults = {}
        self.interrupt_at = None
        self.interrupt_fault = None
        for flt in faults:
            flt.fired = False
            if flt.kind == "interrupt":
                self.interrupt_at = flt.step
                self.interrupt_fault = flt
            else:
                self.faults[flt.step] = flt
        self.peer = peer
        self.secrets_seed = secrets_seed
        self.k = 0
        self.trace = []
        self.frozen = False
        self.dead = False
        self.flags = set()
        self.lines = 0
        self.count_lines = False
        self.step_lines = []
        self.frozen_fs = None

    # ------------------------------------------------------------------
    # steps and faults
    # ------------------------------------------------------------------
    def step(self, kind, path, nbytes, faultable=True):
        """Record one I/O step; apply any fault planned for it."""
        if self.dead:
            return None
        k = self.k
        self.k = k + 1
        if self.count_lines:
            self.step_lines.append((k, kind, self.lines))
        flt = self.faults.get(k) if faultable and not self.frozen else None
        if flt is None:
            self.trace.append((k, kind, path, nbytes, None))
            return None
        fkind = flt.kind
        # faults that only make sense on particular step kinds degrade to
        # "did not fire" elsewhere, so a plan is never silently mis-applied
        if fkind in ("torn-write", "crash-torn", "assert") \
                and kind not in WRITE_KINDS:
            self.trace.append((k, kind, path, nbytes, None))
            return None
        if fkind == "short" and kind not in WRITE_KINDS + READ_KINDS:
            self.trace.append((k, kind, path, nbytes, None))
            return None
        flt.fired = True
        self.trace.append((k, kind, path, nbytes, fkind))
        if fkind == "oserror":
            code = OSERROR_CODES[flt.arg or "EIO"]
            raise OSError(code, os.strerror(code) + " (sim)", path)
        if fkind == "assert":
            raise AssertionError("simulated emitter assertion")
        if fkind == "crash-before":
            self.freeze()
            raise SimCrash("crash-before at step %d" % k)
        if fkind == "crash-after":
            if kind in WRITE_KINDS:
                return ("crash-after", None)
            # non-write steps: the caller performs the effect, then asks
            return ("crash-after-pending", None)
        if fkind == "torn-write":
            return ("torn", float(flt.arg if flt.arg is not None else 0.5))
        if fkind == "crash-torn":
            return ("crash-torn",
                    float(flt.arg if flt.arg is not None else 0.5))
        if fkind == "short":
            return ("short", float(flt.arg if flt.arg is not None else 0.5))
        raise ValueError("unknown fault kind " + fkind)

    def _after(self, act):
        """Finish a non-write step that carries a crash-after fault."""
        if act is not None and act[0] == "crash-after-pending":
            self.freeze()
            raise SimCrash("crash-after at step %d" % (self.k - 1))

    def freeze(self):
        """Durable state is what completed steps wrote; nothing later lands."""
        if not self.frozen:
            self.frozen = True
            self.frozen_fs = {p: bytes(d) for p, d in self.fs.items()}
            self.frozen_links = dict(self.links)

    # ------------------------------------------------------------------
    # file system seams
    # ------------------------------------------------------------------
    @staticmethod
    def owns(path):
        if isinstance(path, os.PathLike):
            path = os.fspath(path)
        if isinstance(path, bytes):
            path = path.decode("utf-8", "surrogateescape")
        return isinstance(path, str) and \
            posixpath.normpath(path).startswith(SIM_ROOT)

    @staticmethod
    def norm(path):
        """One file, one name: '/sim/w/./x', '/sim/w//x' are '/sim/w/x'."""
        if isinstance(path, os.PathLike):
            path = os.fspath(path)
        if isinstance(path, bytes):
            path = path.decode("utf-8", "surrogateescape")
        return posixpath.normpath(path)

    def follow(self, path, links=None):
        """Resolve a symbolic link in the last component (like open(2))."""
        links = self.links if links is None else links
        path = self.norm(path)
        for _ in range(9):
            target = links.get(path)
            if target is None:
                return path
            path = posixpath.normpath(
                target if target.startswith("/")
                else posixpath.join(posixpath.dirname(path), target))
        raise OSError(errno.ELOOP, "Too many levels of symbolic links", path)

    def sim_open(self, path, mode="r", buffering=-1, encoding=None,
                 errors=None, newline=None, closefd=True, opener=None):
        if isinstance(path, int):
            return self.fd_stream(path, mode, buffering, encoding, errors,
                                  newline)
        path = self.follow(path)
        binary = "b" in mode
        writing = any(c in mode for c in "wax+")
        if path in self.dirs:
            self.step("open-w" if writing else "open-r", path, 0,
                      faultable=False)
            raise IsADirectoryError(errno.EISDIR, "Is a directory", path)
        if writing and "w" not in mode or "+" in mode:
            # append, exclusive-create and update modes: by way of a
            # descriptor, like CPython's FileIO
            flags = os.O_RDWR if "+" in mode else os.O_WRONLY
            if "a" in mode:
                flags |= os.O_CREAT | os.O_APPEND
            elif "x" in mode:
                flags |= os.O_CREAT | os.O_EXCL
            elif "w" in mode:
                flags |= os.O_CREAT | os.O_TRUNC
            fdn = self.os_open(path, flags)
            return self.fd_stream(fdn, mode, buffering, encoding, errors,
                                  newline)
        if writing:
            act = self.step("open-w", path, 0)
            parent = posixpath.dirname(path)
            if parent + "/" != SIM_ROOT and parent not in self.dirs \
                    and not any(p.startswith(parent + "/") for p in self.fs):
                raise FileNotFoundError(errno.ENOENT, "No such directory",
                                        path)
            if path in self.unreadable and path in self.fs:
                raise PermissionError(errno.EACCES, "Permission denied", path)
            if not (self.frozen or self.dead):
                self.fs[path] = bytearray()      # O_TRUNC | O_CREAT
                self.touch(path)
            self._after(act)
            raw = SimRaw(self, path, False, True)
            if binary and buffering == 0:
                return raw          # unbuffered: the caller sees short writes
            buf = io.BufferedWriter(raw, buffer_size=max(1, self.bin_buf
                                    if binary else self.text_buf))
            if binary:
                return buf
            txt = io.TextIOWrapper(buf, encoding=encoding or "utf-8",
                                   errors=errors, newline=newline,
                                   write_through=self.write_through)
            try:
                txt._CHUNK_SIZE = max(1, self.text_buf)
            except (AttributeError, ValueError):
                pass
            return txt
        act = self.step("open-r", path, 0)
        if path not in self.fs:
            raise FileNotFoundError(errno.ENOENT, "No such file or directory",
                                    path)
        if path in self.unreadable:
            raise PermissionError(errno.EACCES, "Permission denied", path)
        self._after(act)
        raw = SimRaw(self, path, True, False)
        if binary and buffering == 0:
            return raw
        buf = io.BufferedReader(raw, buffer_size=max(1, self.bin_buf))
        if binary:
            return buf
        return io.TextIOWrapper(buf, encoding=encoding or "utf-8",
                                errors=errors, newline=newline)

    def touch(self, path):
        self.clock += 1
        self.mtime[path] = self.clock

    def stat(self, path, *args, **kwargs):
        """os.stat for simulated paths (size, mtime, regular file/dir)."""
        import stat as statmod
        if not self.owns(path):
            return _REAL_STAT(path, *args, **kwargs)
        if kwargs.get("follow_symlinks", True) is False:
            return self.lstat(path)
        path = self.follow(path)
        self.step("stat", path, 0, faultable=False)
        if path in self.dirs:
            return os.stat_result((statmod.S_IFDIR | 0o755, _ino(path), 1, 1, 0, 0, 0,
                                   1000, 1000, 1000))
        if path not in self.fs:
            raise FileNotFoundError(errno.ENOENT,
                                    "No such file or directory", path)
        return self._stat_of(path)

    def lstat(self, path, *args, **kwargs):
        import stat as statmod
        path = self.norm(path)
        if path in self.links:
            self.step("stat", path, 0, faultable=False)
            extra = {"st_atime": 1000.0, "st_mtime": 1000.0,
                     "st_ctime": 1000.0, "st_atime_ns": 1000 * 10 ** 9,
                     "st_mtime_ns": 1000 * 10 ** 9,
                     "st_ctime_ns": 1000 * 10 ** 9, "st_blksize": 4096,
                     "st_blocks": 0, "st_rdev": 0}
            return os.stat_result((statmod.S_IFLNK | 0o777, _ino("@" + path), 1, 1, 0, 0,
                                   len(self.links[path]), 1000, 1000, 1000),
                                  extra)
        return self.stat(path)

    def islink(self, path):
        path = self.norm(path)
        self.step("stat", path, 0, faultable=False)
        return path in self.links

    def lexists(self, path):
        if self.norm(path) in self.links:
            self.step("stat", self.norm(path), 0, faultable=False)
            return True
        return self.exists(path)

    def readlink(self, path, **_kwargs):
        path = self.norm(path)
        self.step("stat", path, 0, faultable=False)
        if path not in self.links:
            raise OSError(errno.EINVAL, "Invalid argument", path)
        return self.links[path]

    def symlink(self, src, dst, *_args, **_kwargs):
        dst = self.norm(dst)
        act = self.step("symlink", dst, 0)
        if dst in self.links or dst in self.fs or dst in self.dirs:
            raise FileExistsError(errno.EEXIST, "File exists", dst)
        self._check_parent(dst)
        if not (self.frozen or self.dead):
            self.links[dst] = os.fspath(src)
        self._after(act)

    def _stat_of(self, path):
        import stat as statmod
        when = self.mtime.get(path, 1000)
        perm = self.modes.get(path, 0o644)
        extra = {"st_atime": float(when), "st_mtime": float(when),
                 "st_ctime": float(when), "st_atime_ns": when * 10 ** 9,
                 "st_mtime_ns": when * 10 ** 9, "st_ctime_ns": when * 10 ** 9,
                 "st_blksize": 4096, "st_blocks": 0, "st_rdev": 0}
        return os.stat_result((statmod.S_IFREG | perm, _ino(path), 1, 1, 0, 0,
                               len(self.fs[path]), when, when, when), extra)

    def temporary_file(self):
        self.anon_n += 1
        name = "<tmp:%d>" % self.anon_n
        act = self.step("tmp-create", name, 0)
        self.anon[name] = bytearray()
        self._after(act)
        raw = SimRaw(self, name, True, True, kindpfx="tmp-")
        return io.BufferedRandom(raw, buffer_size=max(1, self.bin_buf))

    def exists(self, path):
        if not self.owns(path):
            return os.path.exists(path)
        try:
            path = self.follow(path)
        except OSError:
            return False
        self.step("stat", path, 0, faultable=False)
        return path in self.fs or path in self.dirs

    def isfile(self, path):
        if not self.owns(path):
            return os.path.isfile(path)
        try:
            path = self.follow(path)
        except OSError:
            return False
        self.step("stat", path, 0, faultable=False)
        return path in self.fs

    def access(self, path, mode):
        if not self.owns(path):
            return os.access(path, mode)
        try:
            path = self.follow(path)
        except OSError:
            return False
        self.step("stat", path, 0, faultable=False)
        if path in self.dirs:
            return True
        if path not in self.fs:
            return False
        if mode & os.R_OK and path in self.unreadable:
            return False
        if mode & os.X_OK:
            return path in self.executables
        return True

    executables = frozenset()

    def remove(self, path):
        if not self.owns(path):
            raise PermissionError(errno.EACCES, "outside the simulation", path)
        path = self.norm(path)
        act = self.step("remove", path, 0)
        if path in self.links:
            if not (self.frozen or self.dead):
                del self.links[path]
            self._after(act)
            return
        if path in self.dirs:
            raise IsADirectoryError(errno.EISDIR, "Is a directory", path)
        if path not in self.fs:
            raise FileNotFoundError(errno.ENOENT, "No such file or directory",
                                    path)
        if not (self.frozen or self.dead):
            del self.fs[path]
            self.mtime.pop(path, None)
        self._after(act)

    def _copy_link(self, src, dst):
        """follow_symlinks=False on a link: make the same link again."""
        self.symlink(self.links[src], dst)
        return dst

    def copy2(self, src, dst, *, follow_symlinks=True):
        """shutil.copy2: open src, open dst (truncating), pump, copystat."""
        src = self.norm(src)
        dst = self.norm(dst)
        if self.follow(dst) in self.dirs:
            # shutil.copy2 copies INTO an existing directory
            dst = self.follow(dst) + "/" + posixpath.basename(src)
        if not follow_symlinks and src in self.links:
            return self._copy_link(src, dst)
        if self.follow(src) == self.follow(dst):
            raise shutil.SameFileError(
                "{!r} and {!r} are the same file".format(src, dst))
        self.flags.add("copy2")
        with self.sim_open(src, "rb") as fsrc:
            with self.sim_open(dst, "wb") as fdst:
                # one raw write per chunk, as sendfile()/copyfileobj() would
                while True:
                    chunk = fsrc.read(self.copy_chunk)
                    if not chunk:
                        break
                    fdst.write(chunk)
                    fdst.flush()
        act = self.step("copystat", dst, 0)
        if not (self.frozen or self.dead):
            self.mtime[self.follow(dst)] = self.mtime.get(self.follow(src),
                                                          1000)
        self._after(act)
        return dst

    def copyfileobj(self, fsrc, fdst, length=0):
        shutil.copyfileobj(fsrc, fdst, self.copy_chunk)

    # ------------------------------------------------------------------
    # the rest of the os / shutil / tempfile surface (nothing in the
    # unchanged tree uses these; a changed tree may, and must then meet the
    # same simulated disk instead of falling through to the real one)
    # ------------------------------------------------------------------
    def new_fd(self, path, kindpfx="", flags=0):
        self.fd_n += 1
        fdn = FD_BASE + self.fd_n
        self.fds[fdn] = {"path": path, "kp": kindpfx, "flags": flags,
                         "pos": 0}
        return fdn

    def _check_parent(self, path):
        parent = posixpath.dirname(path)
        if parent + "/" != SIM_ROOT and parent not in self.dirs \
                and not any(p.startswith(parent + "/") for p in self.fs):
            raise FileNotFoundError(errno.ENOENT, "No such directory", path)

    def os_open(self, path, flags, mode=0o777, *, dir_fd=None):
        if flags & getattr(os, "O_NOFOLLOW", 0) and \
                self.norm(path) in self.links:
            raise OSError(errno.ELOOP, "Too many levels of symbolic links",
                          self.norm(path))
        path = self.follow(path)
        acc = flags & os.O_ACCMODE
        writing = acc in (os.O_WRONLY, os.O_RDWR)
        if path in self.dirs:
            if writing:
                raise IsADirectoryError(errno.EISDIR, "Is a directory", path)
            self.step("open-r", path, 0, faultable=False)
            return self.new_fd(path, "", flags)
        changes = bool(flags & os.O_CREAT and path not in self.fs) or \
            bool(flags & os.O_TRUNC and writing)
        act = self.step("open-w" if changes else "open-r", path, 0)
        present = path in self.fs
        if present and flags & os.O_CREAT and flags & os.O_EXCL:
            raise FileExistsError(errno.EEXIST, "File exists", path)
        if not present and not flags & os.O_CREAT:
            raise FileNotFoundError(errno.ENOENT,
                                    "No such file or directory", path)
        self._check_parent(path)
        if present and path in self.unreadable:
            raise PermissionError(errno.EACCES, "Permission denied", path)
        if not (self.frozen or self.dead):
            if not present:
                self.fs[path] = bytearray()
                self.modes[path] = mode & 0o777 & ~0o022
                self.touch(path)
            elif flags & os.O_TRUNC and writing:
                self.fs[path] = bytearray()
                self.touch(path)
        self._after(act)
        return self.new_fd(path, "", flags)

    def fd_stream(self, fdn, mode="r", buffering=-1, encoding=None,
                  errors=None, newline=None):
        ent = self.fds.get(fdn)
        if ent is None:
            raise OSError(errno.EBADF, "Bad file descriptor")
        binary = "b" in mode
        updating = "+" in mode
        writing = any(c in mode for c in "wax") or updating
        reading = "r" in mode or updating
        raw = SimRaw(self, ent["path"], reading, writing, kindpfx=ent["kp"],
                     fd=fdn,
                     append=bool(ent["flags"] & os.O_APPEND) or "a" in mode)
        raw.pos = ent["pos"]
        if binary and buffering == 0:
            return raw
        size = max(1, self.bin_buf if binary else self.text_buf)
        if reading and writing:
            buf = io.BufferedRandom(raw, buffer_size=size)
        elif writing:
            buf = io.BufferedWriter(raw, buffer_size=size)
        else:
            buf = io.BufferedReader(raw, buffer_size=size)
        if binary:
            return buf
        return io.TextIOWrapper(buf, encoding=encoding or "utf-8",
                                errors=errors, newline=newline,
                                write_through=self.write_through)

    def _fd(self, fdn):
        ent = self.fds.get(fdn)
        if ent is None:
            raise OSError(errno.EBADF, "Bad file descriptor")
        return ent

    def os_close(self, fdn):
        ent = self._fd(fdn)
        del self.fds[fdn]
        if ent["path"] in self.dirs:
            return
        writing = (ent["flags"] & os.O_ACCMODE) in (os.O_WRONLY, os.O_RDWR)
        if writing and not ent["kp"]:
            self._after(self.step("close-w", ent["path"], 0))
        else:
            self.step(ent["kp"] + "close", ent["path"], 0, faultable=False)

    def os_write(self, fdn, data):
        ent = self._fd(fdn)
        raw = SimRaw(self, ent["path"], False, True, kindpfx=ent["kp"],
                     append=bool(ent["flags"] & os.O_APPEND))
        raw.quiet = True
        raw.pos = ent["pos"]
        done = raw.write(data)
        ent["pos"] = raw.pos
        return done

    def os_read(self, fdn, count):
        ent = self._fd(fdn)
        raw = SimRaw(self, ent["path"], True, False, kindpfx=ent["kp"])
        raw.quiet = True
        raw.pos = ent["pos"]
        buf = bytearray(count)
        got = raw.readinto(buf)
        ent["pos"] = raw.pos
        return bytes(buf[:got])

    def os_lseek(self, fdn, pos, how):
        ent = self._fd(fdn)
        size = len(self.anon[ent["path"]] if ent["kp"]
                   else self.fs.get(ent["path"], b""))
        ent["pos"] = pos if how == 0 else \
            ent["pos"] + pos if how == 1 else size + pos
        return ent["pos"]

    def os_fsync(self, fdn):
        ent = self._fd(fdn)
        self._after(self.step("fsync", ent["path"], 0))

    def os_fstat(self, fdn):
        ent = self._fd(fdn)
        return self.stat(ent["path"])

    def os_ftruncate(self, fdn, size):
        ent = self._fd(fdn)
        self.truncate(ent["path"], size)

    def truncate(self, path, size):
        if isinstance(path, int):
            return self.os_ftruncate(path, size)
        path = self.follow(path)
        act = self.step("truncate", path, size)
        if path not in self.fs:
            raise FileNotFoundError(errno.ENOENT,
                                    "No such file or directory", path)
        if not (self.frozen or self.dead):
            buf = self.fs[path]
            if len(buf) > size:
                del buf[size:]
            else:
                buf.extend(b"\0" * (size - len(buf)))
            self.touch(path)
        self._after(act)
        return None

    def rename(self, src, dst, **_kwargs):
        """os.rename / os.replace (POSIX: silently replaces a file)."""
        src = self.norm(src)
        dst = self.norm(dst)
        act = self.step("rename", dst, 0)
        if src in self.links:
            # the link itself moves; a link at the destination is replaced
            if dst in self.dirs and dst not in self.links:
                raise IsADirectoryError(errno.EISDIR, "Is a directory", dst)
            if not (self.frozen or self.dead) and src != dst:
                self.fs.pop(dst, None)
                self.links[dst] = self.links.pop(src)
            self._after(act)
            return
        if dst in self.links and src in self.fs:
            # rename(2) replaces the link, it does not write through it
            if not (self.frozen or self.dead):
                del self.links[dst]
        if src in self.dirs:
            if dst in self.fs:
                raise NotADirectoryError(errno.ENOTDIR, "Not a directory",
                                         dst)
            if not (self.frozen or self.dead):
                self.dirs.discard(src)
                self.dirs.add(dst)
                for name in [p for p in self.fs
                             if p.startswith(src + "/")]:
                    self.fs[dst + name[len(src):]] = self.fs.pop(name)
            self._after(act)
            return
        if src not in self.fs:
            raise FileNotFoundError(errno.ENOENT,
                                    "No such file or directory", src)
        if dst in self.dirs:
            raise IsADirectoryError(errno.EISDIR, "Is a directory", dst)
        self._check_parent(dst)
        if not (self.frozen or self.dead) and src != dst:
            self.fs[dst] = self.fs.pop(src)
            self.mtime[dst] = self.mtime.pop(src, 1000)
            if src in self.modes:
                self.modes[dst] = self.modes.pop(src)
            else:
                self.modes.pop(dst, None)
            if src in self.unreadable:
                self.unreadable.discard(src)
                self.unreadable.add(dst)
            else:
                self.unreadable.discard(dst)
        self._after(act)

    def chmod(self, path, mode, **_kwargs):
        if isinstance(path, int):
            path = self._fd(path)["path"]
        path = self.follow(path)
        act = self.step("chmod", path, 0)
        if path not in self.fs and path not in self.dirs:
            raise FileNotFoundError(errno.ENOENT,
                                    "No such file or directory", path)
        if not (self.frozen or self.dead):
            self.modes[path] = mode & 0o7777
        self._after(act)

    def utime(self, path, times=None, *, ns=None, **_kwargs):
        if isinstance(path, int):
            path = self._fd(path)["path"]
        path = self.follow(path)
        act = self.step("utime", path, 0)
        if path not in self.fs and path not in self.dirs:
            raise FileNotFoundError(errno.ENOENT,
                                    "No such file or directory", path)
        if not (self.frozen or self.dead):
            if ns is not None:
                self.mtime[path] = int(ns[1]) // 10 ** 9
            elif times is not None:
                self.mtime[path] = int(times[1])
            else:
                self.touch(path)
        self._after(act)

    def isdir(self, path):
        path = self.norm(path)
        self.step("stat", path, 0, faultable=False)
        return path in self.dirs

    def listdir(self, path="."):
        path = self.norm(path)
        self.step("stat", path, 0, faultable=False)
        if path in self.fs:
            raise NotADirectoryError(errno.ENOTDIR, "Not a directory", path)
        names = set()
        for name in list(self.fs) + list(self.dirs):
            if name.startswith(path + "/"):
                names.add(name[len(path) + 1:].split("/", 1)[0])
        if not names and path not in self.dirs and path + "/" != SIM_ROOT \
                and path != "/sim/w":
            raise FileNotFoundError(errno.ENOENT,
                                    "No such file or directory", path)
        return sorted(names)

    def mkdir(self, path, mode=0o777, **_kwargs):
        path = self.norm(path)
        act = self.step("mkdir", path, 0)
        if path in self.fs or path in self.dirs:
            raise FileExistsError(errno.EEXIST, "File exists", path)
        self._check_parent(path)
        if not (self.frozen or self.dead):
            self.dirs.add(path)
        self._after(act)

    def makedirs(self, path, mode=0o777, exist_ok=False):
        path = self.norm(path)
        if path in self.dirs or path in ("/sim", "/sim/w"):
            if exist_ok:
                return
            raise FileExistsError(errno.EEXIST, "File exists", path)
        parent = posixpath.dirname(path)
        if parent not in self.dirs and parent not in ("/sim", "/sim/w") \
                and not any(p.startswith(parent + "/") for p in self.fs):
            self.makedirs(parent, mode, True)
        self.mkdir(path, mode)

    def rmdir(self, path, **_kwargs):
        path = self.norm(path)
        act = self.step("rmdir", path, 0)
        if path not in self.dirs:
            raise FileNotFoundError(errno.ENOENT,
                                    "No such file or directory", path)
        if any(p.startswith(path + "/") for p in self.fs):
            raise OSError(errno.ENOTEMPTY, "Directory not empty", path)
        if not (self.frozen or self.dead):
            self.dirs.discard(path)
        self._after(act)

    def copyfile(self, src, dst, *, follow_symlinks=True, **_kwargs):
        src = self.norm(src)
        dst = self.norm(dst)
        if not follow_symlinks and src in self.links:
            return self._copy_link(src, dst)
        if self.follow(src) == self.follow(dst):
            raise shutil.SameFileError(
                "{!r} and {!r} are the same file".format(src, dst))
        with self.sim_open(src, "rb") as fsrc:
            with self.sim_open(dst, "wb") as fdst:
                while True:
                    chunk = fsrc.read(self.copy_chunk)
                    if not chunk:
                        break
                    fdst.write(chunk)
                    fdst.flush()
        return dst

    def copymode(self, src, dst, *, follow_symlinks=True, **_kwargs):
        if not follow_symlinks and self.norm(src) in self.links:
            return
        src = self.follow(src)
        self.chmod(dst, self.modes.get(src, 0o644))

    def copystat(self, src, dst, *, follow_symlinks=True, **_kwargs):
        if not follow_symlinks and (self.norm(src) in self.links
                                    or self.norm(dst) in self.links):
            self.step("copystat", self.norm(dst), 0, faultable=False)
            return
        src = self.follow(src)
        dst = self.follow(dst)
        act = self.step("copystat", dst, 0)
        if src not in self.fs or dst not in self.fs:
            raise FileNotFoundError(errno.ENOENT,
                                    "No such file or directory", dst)
        if not (self.frozen or self.dead):
            self.mtime[dst] = self.mtime.get(src, 1000)
            if src in self.modes:
                self.modes[dst] = self.modes[src]
            else:
                self.modes.pop(dst, None)
        self._after(act)

    def copy(self, src, dst, *, follow_symlinks=True, **_kwargs):
        dst = self.norm(dst)
        if self.follow(dst) in self.dirs:
            dst = self.follow(dst) + "/" + posixpath.basename(self.norm(src))
        self.copyfile(src, dst, follow_symlinks=follow_symlinks)
        self.copymode(src, dst, follow_symlinks=follow_symlinks)
        return dst

    def move(self, src, dst, **_kwargs):
        dst = self.norm(dst)
        if dst in self.dirs:
            dst = dst + "/" + posixpath.basename(self.norm(src))
        self.rename(src, dst)
        return dst

    def mkstemp(self, suffix=None, prefix=None, dir=None, text=False):
        # pylint: disable=redefined-builtin
        where = self.norm(dir) if dir is not None else TMP_DIR
        self.named_tmp_n += 1
        name = "%s/%s%s%s" % (where, prefix if prefix is not None else "tmp",
                              "sim%04d" % self.named_tmp_n, suffix or "")
        fdn = self.os_open(name, os.O_RDWR | os.O_CREAT | os.O_EXCL, 0o600)
        return fdn, name

    def named_temporary_file(self, mode="w+b", buffering=-1, encoding=None,
                             newline=None, suffix=None, prefix=None,
                             dir=None, delete=True, *, errors=None,
                             delete_on_close=True):
        # pylint: disable=redefined-builtin
        fdn, name = self.mkstemp(suffix, prefix, dir)
        stream = self.fd_stream(fdn, mode, buffering, encoding, errors,
                                newline)
        return _NamedTemp(self, stream, name, delete)

    # ------------------------------------------------------------------
    # snapshots
    # ------------------------------------------------------------------
    def snapshot(self):
        """
        Path -> bytes.  A symbolic link is listed with the bytes that reading
        it gives (what the user sees under that name); a dangling one is not
        listed.
        """
        src = self.frozen_fs if self.frozen else self.fs
        links = self.frozen_links if self.frozen else self.links
        view = {p: bytes(d) for p, d in src.items()}
        for name in links:
            try:
                real = self.follow(name, links)
            except OSError:
                continue
            if real in src:
                view[name] = bytes(src[real])
        return view


# ----------------------------------------------------------------------
# the process runner
# ----------------------------------------------------------------------
TOOLS = {
    "yaml-get": "yamlpath.commands.yaml_get",
    "yaml-set": "yamlpath.commands.yaml_set",
    "yaml-merge": "yamlpath.commands.yaml_merge",
    "yaml-diff": "yamlpath.commands.yaml_diff",
    "yaml-validate": "yamlpath.commands.yaml_validate",
    "yaml-paths": "yamlpath.commands.yaml_paths",
    "eyaml-rotate-keys": "yamlpath.commands.eyaml_rotate_keys",
}

_REAL_OPEN = builtins.open
_REAL_STAT = os.stat
_TRACED_DIRS = None


def _traced_dirs():
    global _TRACED_DIRS
    if _TRACED_DIRS is None:
        import yamlpath
        import ruamel.yaml
        _TRACED_DIRS = (
            os.path.dirname(os.path.abspath(yamlpath.__file__)) + os.sep,
            os.path.dirname(os.path.abspath(ruamel.yaml.__file__)) + os.sep,
        )
    return _TRACED_DIRS


def _import_tool(tool):
    import importlib
    return importlib.import_module(TOOLS[tool])


@contextmanager
def _patched(world, tool_mod, argv0, argv):
    """Rebind every seam to the world; restore all of them afterwards."""
    import yamlpath.common.parsers as parsers
    import yamlpath.eyaml.eyamlprocessor as eproc
    saved = []

    def setattr_(obj, name, value):
        saved.append((obj, name, getattr(obj, name, _MISSING)))
        setattr(obj, name, value)

    def routed_open(file, mode="r", *args, **kwargs):
        if not world.dead:
            if isinstance(file, int) and not isinstance(file, bool):
                if file in world.fds:
                    return world.sim_open(file, mode, *args, **kwargs)
            elif World.owns(file):
                return world.sim_open(file, mode, *args, **kwargs)
        return _REAL_OPEN(file, mode, *args, **kwargs)

    stdin = io.TextIOWrapper(
        io.BufferedReader(
            SimStdinRaw(world, world.stdin_bytes, world.tty,
                        world.stdin_chunks),
            buffer_size=max(1, world.bin_buf)),
        encoding="utf-8")
    stdout = _Capture()
    stderr = _Capture()
    def by_path(sim_fn, real_fn, npaths=1):
        """Route a call to the world when (one of) its path(s) is simulated."""
        def routed(*args, **kwargs):
            if not world.dead:
                for arg in args[:npaths]:
                    if isinstance(arg, int) and not isinstance(arg, bool):
                        if arg in world.fds:
                            return sim_fn(*args, **kwargs)
                    elif World.owns(arg):
                        return sim_fn(*args, **kwargs)
            return real_fn(*args, **kwargs)
        routed.__name__ = getattr(real_fn, "__name__", "routed")
        return routed

    def routed_tmp(sim_fn, real_fn):
        def routed(*args, **kwargs):
            if world.dead:
                return real_fn(*args, **kwargs)
            return sim_fn(*args, **kwargs)
        return routed

    def gap(name, real_fn, npaths=1):
        def routed(*args, **kwargs):
            if not world.dead:
                for arg in list(args[:npaths]) + [kwargs.get("path"),
                                                  kwargs.get("src"),
                                                  kwargs.get("dst")]:
                    if arg is not None and not isinstance(arg, int) \
                            and World.owns(arg):
                        world.flags.add("seam-gap:" + name)
                        raise NotImplementedError(
                            "simulator: %s is not modelled" % name)
            return real_fn(*args, **kwargs)
        return routed

    import tempfile as real_tempfile
    unmodelled = [
        (os, "link", 2),
        (os, "scandir", 1), (os, "chown", 1), (os, "lchown", 1),
        (os, "mkfifo", 1), (os, "mknod", 1), (os, "chdir", 1),
        (os, "statvfs", 1), (os, "getxattr", 1), (os, "setxattr", 1),
        (os, "listxattr", 1), (os, "removexattr", 1), (os, "chflags", 1),
        (os, "pathconf", 1), (os, "walk", 1),
        (shutil, "rmtree", 1), (shutil, "copytree", 2),
        (shutil, "disk_usage", 1), (shutil, "chown", 1),
    ]
    surface = [
        (os, "lstat", world.lstat, 1), (os, "chmod", world.chmod, 1),
        (os, "readlink", world.readlink, 1), (os, "symlink", world.symlink, 2),
        (posixpath, "islink", world.islink, 1),
        (os, "utime", world.utime, 1), (os, "rename", world.rename, 2),
        (os, "replace", world.rename, 2), (os, "remove", world.remove, 1),
        (os, "unlink", world.remove, 1), (os, "open", world.os_open, 1),
        (os, "close", world.os_close, 1), (os, "write", world.os_write, 1),
        (os, "read", world.os_read, 1), (os, "lseek", world.os_lseek, 1),
        (os, "fsync", world.os_fsync, 1), (os, "fdatasync", world.os_fsync, 1),
        (os, "fstat", world.os_fstat, 1),
        (os, "ftruncate", world.os_ftruncate, 1),
        (os, "truncate", world.truncate, 1), (os, "listdir", world.listdir, 1),
        (os, "mkdir", world.mkdir, 1), (os, "makedirs", world.makedirs, 1),
        (os, "rmdir", world.rmdir, 1), (os, "access", world.access, 1),
        (posixpath, "exists", world.exists, 1),
        (posixpath, "lexists", world.lexists, 1),
        (posixpath, "isfile", world.isfile, 1),
        (posixpath, "isdir", world.isdir, 1),
        (shutil, "copy2", world.copy2, 2), (shutil, "copy", world.copy, 2),
        (shutil, "copyfile", world.copyfile, 2),
        (shutil, "copymode", world.copymode, 2),
        (shutil, "copystat", world.copystat, 2),
        (shutil, "move", world.move, 2),
    ]
    try:
        setattr_(builtins, "open", routed_open)
        setattr_(io, "open", routed_open)
        setattr_(os, "stat", world.stat)
        # The whole os / shutil / tempfile file surface meets the simulated
        # disk: on the modules themselves (late-bound uses such as
        # ``os.replace(...)`` and pathlib) ...
        rebound = {id(_REAL_OPEN): routed_open, id(_REAL_STAT): world.stat,
                   id(shutil.copyfileobj): world.copyfileobj}
        for holder, name, sim_fn, npaths in surface:
            real_fn = getattr(holder, name, None)
            if real_fn is None:
                continue
            routed = by_path(sim_fn, real_fn, npaths)
            rebound[id(real_fn)] = routed
            setattr_(holder, name, routed)
        for holder, name, npaths in unmodelled:
            real_fn = getattr(holder, name, None)
            if real_fn is None:
                continue
            routed = gap(holder.__name__ + "." + name, real_fn, npaths)
            rebound[id(real_fn)] = routed
            setattr_(holder, name, routed)
        for name, sim_fn in (
                ("NamedTemporaryFile", world.named_temporary_file),
                ("mkstemp", world.mkstemp),
                ("TemporaryFile", lambda *a, **k: world.temporary_file())):
            real_fn = getattr(real_tempfile, name)
            routed = routed_tmp(sim_fn, real_fn)
            rebound[id(real_fn)] = routed
            setattr_(real_tempfile, name, routed)
        # ... and wherever the code under test bound one of them by name at
        # import time (``from os import remove, stat``)
        for modname in sorted(sys.modules):
            if modname != "yamlpath" and not modname.startswith("yamlpath."):
                continue
            mod = sys.modules[modname]
            if mod is None:
                continue
            for name, value in list(vars(mod).items()):
                repl = rebound.get(id(value))
                if repl is not None and callable(value):
                    setattr_(mod, name, repl)
        for mod in set([tool_mod] + [sys.modules[m] for m in TOOLS.values()
                                     if m in sys.modules]):
            for name, repl in (("remove", world.remove),
                               ("exists", world.exists),
                               ("isfile", world.isfile),
                               ("access", world.access),
                               ("copy2", world.copy2),
                               ("copyfileobj", world.copyfileobj)):
                if hasattr(mod, name):
                    setattr_(mod, name, repl)
            if hasattr(mod, "tempfile"):
                setattr_(mod, "tempfile", _TempfileSeam(world))
            if hasattr(mod, "secrets"):
                setattr_(mod, "secrets", _SeededSecrets(world.secrets_seed))
        setattr_(parsers, "stdin", stdin)
        if world.peer is not None:
            setattr_(eproc, "run", world.peer.run)
            setattr_(eproc, "which", world.peer.which)
            setattr_(eproc, "access", world.peer.access)
        else:
            setattr_(eproc, "which", lambda name: None)
            setattr_(eproc, "access", world.access)
        setattr_(sys, "stdin", stdin)
        setattr_(sys, "stdout", stdout)
        setattr_(sys, "stderr", stderr)
        setattr_(sys, "argv", [argv0] + list(argv))
        saved_home = os.environ.get("HOME")
        os.environ["HOME"] = "/sim/w"       # "~" expands into the simulation
        yield stdout, stderr
    finally:
        if "saved_home" in locals():
            if saved_home is None:
                os.environ.pop("HOME", None)
            else:
                os.environ["HOME"] = saved_home
        for obj, name, old in reversed(saved):
            if old is _MISSING:
                delattr(obj, name)
            else:
                setattr(obj, name, old)


_MISSING = object()


def run_tool(world, tool, argv):
    """Execute one real console entry point inside ``world``."""
    mod = _import_tool(tool)
    res = Result()
    res.traceback = None
    tracer = None
    if world.interrupt_at is not None or world.count_lines:
        dirs = _traced_dirs()
        target = world.interrupt_at
        flt = world.interrupt_fault

        def local(frame, event, arg):
            if event == "line":
                n = world.lines
                world.lines = n + 1
                if n == target and not flt.fired:
                    flt.fired = True
                    world.trace.append((world.k, "interrupt",
                                        "line:%d" % n, 0, "interrupt"))
                    raise KeyboardInterrupt()
            return local

        def tracer(frame, event, arg):
            if frame.f_code.co_filename.startswith(dirs):
                return local
            return None

    with _patched(world, mod, tool, argv) as (stdout, stderr):
        try:
            if tracer is not None:
                sys.settrace(tracer)
            try:
                mod.main()
            finally:
                if tracer is not None:
                    sys.settrace(None)
            res.exit = 0
        except SystemExit as ex:
            code = ex.code
            if code is None:
                res.exit = 0
            elif isinstance(code, int):
                res.exit = code
            else:
                sys.stderr.write(str(code) + "\n")
                res.exit = 1
        except SimCrash:
            res.exit = "killed"
        except KeyboardInterrupt:
            res.exit = 130
            world.flags.add("uncaught-interrupt")
        except Exception as ex:  # pylint: disable=broad-except
            res.exit = 1
            res.traceback = "".join(
                traceback.format_exception_only(type(ex), ex)).strip()
            world.flags.add("uncaught:" + type(ex).__name__)
        res.stdout = stdout.text()
        res.stderr = stderr.text()
    res.fs = world.snapshot()
    world.dead = True
    res.trace = list(world.trace)
    res.flags = set(world.flags)
    res.peer_log = list(world.peer.log) if world.peer is not None else []
    res.lines = world.lines
    res.step_lines = list(world.step_lines)
    res.steps = world.k
    res.fired = [f.to_json() for f in
                 list(world.faults.values())
                 + ([world.interrupt_fault] if world.interrupt_fault else [])
                 if f.fired]
    return res


@contextmanager
def fs_visible(files):
    """
    Make simulated files readable through the built-in ``open`` (and nothing
    else): lets a *reference* computation that runs outside any tool -- e.g.
    ``MergerConfig`` reading its INI file through configparser -- see the same
    bytes the tool saw.
    """
    world = World(files)

    def routed_open(file, mode="r", *args, **kwargs):
        if World.owns(file):
            return world.sim_open(file, mode, *args, **kwargs)
        return _REAL_OPEN(file, mode, *args, **kwargs)
    builtins.open = routed_open
    try:
        yield world
    finally:
        builtins.open = _REAL_OPEN
        world.dead = True
