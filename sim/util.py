"""Small shared helpers: a silent logger and yamlpath's strict loader."""
from yamlpath.common import Parsers


class QuietLog:
    """Stand-in for ConsolePrinter that prints nothing and never exits."""

    def __init__(self):
        self.errors = []

    def info(self, *args, **kwargs):
        pass

    verbose = warning = debug = info

    def error(self, message, exit_code=None):
        self.errors.append(str(message))

    def critical(self, message, exit_code=1):
        self.errors.append(str(message))
        raise SystemExit(exit_code)


def strict_load(text):
    """(document, loaded?) using Parsers.get_yaml_data on literal text."""
    yaml = Parsers.get_yaml_editor()
    return Parsers.get_yaml_data(yaml, QuietLog(), text, literal=True)


def strict_load_all(text):
    """([documents], loaded?) using Parsers.get_yaml_multidoc_data."""
    yaml = Parsers.get_yaml_editor()
    docs = []
    for doc, ok in Parsers.get_yaml_multidoc_data(yaml, QuietLog(), text,
                                                  literal=True):
        if not ok:
            return docs, False
        docs.append(doc)
    return docs, True
