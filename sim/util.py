"""Small shared helpers: a silent logger and yamlpath's strict loader."""
from yamlpath.common import Parsers


class QuietLog:
    """Stand-in for ConsolePrinter that prints nothing and never exits."""

    def __init__(self):
        self.errors = []

    def info(self, *args, **kwargs):
        pass

    verbose = warning = debug = info

    def error(self, message, exit_code=None):
        self.errors.append(str(message))

    def critical(self, message, exit_code=1):
        self.errors.append(str(message))
        raise SystemExit(exit_code)


def debug_log():
    """
    The real ConsolePrinter with --debug on (its output is discarded by the
    caller): debug statements execute, format their arguments, and must not
    change what the library does.
    """
    from types import SimpleNamespace
    from yamlpath.wrappers import ConsolePrinter
    return ConsolePrinter(SimpleNamespace(quiet=False, verbose=True,
                                          debug=True))


class CommentOverlap(Exception):
    """ruamel.yaml could not attach the comments of a document it was given."""


def _literal(text):
    # Parsers treats the exact source "-" as "read standard input" even for
    # literal data; a (torn) file holding just "-" must not reach that branch
    return text + "\n" if text.strip() == "-" else text


def strict_load(text):
    """(document, loaded?) using Parsers.get_yaml_data on literal text."""
    from ruamel.yaml.reader import ReaderError
    yaml = Parsers.get_yaml_editor()
    try:
        return Parsers.get_yaml_data(yaml, QuietLog(), _literal(text),
                                     literal=True)
    except NotImplementedError as ex:
        # ruamel.yaml 0.17.21 gives up on some arrangements of comments
        # ("overlap in comment ..."): its limitation, reported as such
        raise CommentOverlap(str(ex)) from ex
    except (ReaderError, UnicodeError, ValueError):
        # control characters / undecodable bytes (torn writes), or a scalar
        # ruamel's own constructor chokes on (e.g. "!!float '5'"): Parsers
        # does not trap these; for every caller here that simply means "not
        # a loadable document"
        return None, False


def strict_load_all(text):
    """([documents], loaded?) using Parsers.get_yaml_multidoc_data."""
    from ruamel.yaml.reader import ReaderError
    yaml = Parsers.get_yaml_editor()
    docs = []
    try:
        for doc, ok in Parsers.get_yaml_multidoc_data(
                yaml, QuietLog(), _literal(text), literal=True):
            if not ok:
                return docs, False
            docs.append(doc)
    except (ReaderError, UnicodeError, ValueError):
        return docs, False
    return docs, True
