#!/venv/bin/python
"""Build a C16 regression replay for yaml-diff from two literal documents."""
import json
import os
import sys
sys.path.insert(0, os.path.dirname(os.path.dirname(os.path.abspath(__file__))))
sys.argv, args = sys.argv[:1], sys.argv[1:]
import importlib.util
spec = importlib.util.spec_from_file_location(
    "c16", os.path.join(os.path.dirname(os.path.dirname(os.path.abspath(__file__))), "checks", "c16.py"))
c16 = importlib.util.module_from_spec(spec)
spec.loader.exec_module(c16)
name, cls, lhs, rhs = args
lhs = lhs.encode().decode("unicode_escape")
rhs = rhs.encode().decode("unicode_escape")
scn = {"tool": "yaml-diff", "opts": [], "lhs": lhs, "rhs": rhs,
       "lname": c16.W + "lhs.yaml", "rname": c16.W + "rhs.yaml", "edits": ["hand-written"]}
recipe = c16.base_recipe("yaml-diff", [scn["lname"], scn["rname"]],
                         {scn["lname"]: lhs, scn["rname"]: rhs})
viol = {"class": cls, "scenario": scn, "recipe": recipe, "channel": "file", "faults": []}
ok, res = c16.rejudge(viol)
payload = {"property": "C16", "engine": "tool-world", "violation_class": cls,
           "channel": "file", "scenario": scn, "recipe": recipe, "faults": [],
           "expect": {"event_log_sha256": res.digest(), "exit": res.exit}}
path = os.path.join(os.path.dirname(os.path.dirname(os.path.abspath(__file__))), "regressions", name)
json.dump(payload, open(path, "w"), indent=1, sort_keys=True)
print(path, "reproduces now:", ok, "exit", res.exit)
