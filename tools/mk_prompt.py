#!/usr/bin/env python3
"""
Write the instructions for one independent sub-agent that is to produce a
realistic property-breaking change (see DESIGN.md section 11).  The prompt
holds the property's text and nothing else from /verif.

usage: mk_prompt.py <tag e.g. C17o> <property id> <hint> <already submitted>
"""
import json
import sys

TEMPLATE = """You are helping to evaluate a verification effort for the open-source Python project wwkimball/yamlpath (YAML Path query language, ruamel.yaml based; library + command-line tools yaml-get, yaml-set, yaml-merge, yaml-diff, yaml-validate, yaml-paths, eyaml-rotate-keys).

You have your own scratch git worktree of the project at /tmp/wt-{tag} (work ONLY there; never touch /repo or /verif, and do not read anything under /verif). Python is /venv/bin/python. The installed 'yamlpath' package points elsewhere, so ALWAYS run things with PYTHONPATH=/tmp/wt-{tag} (and cwd /tmp/wt-{tag}) and double-check with: PYTHONPATH=/tmp/wt-{tag} /venv/bin/python -c "import yamlpath; print(yamlpath.__file__)".

Here is a semantic property that the project is supposed to satisfy:

---
Title: {title}

Statement: {statement}

Quantified over: {over}
---

YOUR TASK: write ONE realistic source change (a plausible refactor, optimisation, "cleanup", or bug-fix-gone-wrong that a real contributor might submit) to the code under /tmp/wt-{tag}/yamlpath that BREAKS this property, while:
  1. everything still imports/compiles;
  2. the existing test suite still passes exactly as before. Run it with:
       cd /tmp/wt-{tag} && PYTHONPATH=/tmp/wt-{tag} /venv/bin/python -m pytest -q -p no:cacheprovider --timeout=900 --continue-on-collection-errors 2>&1 | tail -3
     The expected baseline (before and after your change) is "1 failed, 988 passed, 19 skipped, 1 xfailed, 313 errors" (the 313 errors and 1 failure are CLI tests that need a pytest plugin which is not installed; they are expected). Your change must leave the 988 passing tests passing.
  3. the breakage needs something SPECIFIC to manifest - a particular multi-step sequence of operations, an unusual-but-legal input shape, a failure/fault at a particular point (e.g. an I/O error or interruption at a particular step), a particular combination of options, or two cooperating sites that each look fine alone. It must NOT be something ordinary use would expose at once (e.g. do not make every call fail).
Focus hint for diversity (other people are writing other changes): {hint}{eyaml}; already submitted by others (do NOT repeat these ideas): {taken}

Also write a small demonstration program /tmp/wt-{tag}/demo_{tag}.py that exits 0 when the property holds for its scenario and exits 1 (printing what went wrong) when it is violated: it must FAIL (exit 1) with your change applied and PASS (exit 0) on the unmodified code. The demo may call library functions directly, or run a tool's main() in-process (patching sys.argv / sys.stdin, using real temp files under a tempfile.mkdtemp() directory), or monkeypatch a file operation to inject a failure at a chosen step. Verify both directions yourself (do NOT use git stash (it is shared between worktrees); use `git diff -- yamlpath > /tmp/wt-{tag}.diff; git checkout -- yamlpath; ...; git apply /tmp/wt-{tag}.diff`).

When done, leave in /tmp/wt-{tag}: your source change UNCOMMITTED in the working tree (only files under yamlpath/ modified), the demo file, and a file /tmp/wt-{tag}/MUTANT.md describing: what you changed and why it looks innocent, exactly which property clause it breaks, and what specific conditions are needed for the breakage to manifest. Reply with a short summary (changed files, the conditions needed, demo results with and without the change, test-suite tail with the change).
"""

EYAML = (". Note no real eyaml binary is installed: your demo must substitute a "
         "fake (e.g. monkeypatch yamlpath.eyaml.eyamlprocessor.run/which/access "
         "or write a small executable script implementing decrypt/encrypt with "
         "a reversible keyed cipher)")


def main():
    tag, prop, hint, taken = sys.argv[1:5]
    with open("/verif/properties.jsonl", encoding="utf-8") as fhnd:
        props = {json.loads(line)["id"]: json.loads(line) for line in fhnd
                 if line.strip()}
    item = props[prop]
    text = TEMPLATE.format(
        tag=tag, title=item["title"], statement=item["statement"],
        over=item["quantifier"]["text"], hint=hint,
        eyaml=EYAML if prop == "C19" else "", taken=taken)
    with open("/tmp/prompt-%s.txt" % tag, "w", encoding="utf-8") as fhnd:
        fhnd.write(text)
    print("/tmp/prompt-%s.txt" % tag)


if __name__ == "__main__":
    main()
