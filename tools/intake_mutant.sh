#!/bin/bash
# intake_mutant.sh <worktree> <seeded-id> <property>  : confirm a sub-agent's change and file it under seeded/
set -u
WT=$1; ID=$2; PROP=$3
cd "$WT" || exit 2
git diff -- yamlpath > /tmp/intake-$ID.diff
if [ ! -s /tmp/intake-$ID.diff ]; then echo "no source change"; exit 2; fi
DEMO=$(ls demo_*.py 2>/dev/null | head -1)
echo "== files changed:"; git diff --stat -- yamlpath | cat
echo "== demo with change:"; PYTHONPATH=$WT timeout 300 /venv/bin/python $DEMO > /tmp/intake-$ID.with 2>&1; W=$?; tail -3 /tmp/intake-$ID.with; echo "exit=$W"
git diff -- yamlpath > /tmp/intake-$ID.keep; git checkout -- yamlpath
echo "== demo without change:"; PYTHONPATH=$WT timeout 300 /venv/bin/python $DEMO > /tmp/intake-$ID.without 2>&1; WO=$?; tail -2 /tmp/intake-$ID.without; echo "exit=$WO"
git apply /tmp/intake-$ID.keep
echo "== tests with change:"; PYTHONPATH=$WT timeout 900 /venv/bin/python -m pytest -q -p no:cacheprovider --timeout=900 --continue-on-collection-errors 2>&1 | tail -1 | cut -c1-120 | tee /tmp/intake-$ID.tests
mkdir -p /verif/seeded/$ID
cp /tmp/intake-$ID.diff /verif/seeded/$ID/patch.diff
cp $DEMO /verif/seeded/$ID/demo.py
[ -f MUTANT.md ] && cp MUTANT.md /verif/seeded/$ID/MUTANT.md
/venv/bin/python - <<PY 2>/dev/null
import json
tests = open('/tmp/intake-$ID.tests').read().strip()
json.dump({"id": "$ID", "property": "$PROP",
  "breaks": open('$WT/MUTANT.md').read()[:1500] if __import__('os').path.exists('$WT/MUTANT.md') else "",
  "confirmed": {"demo_exit_with_change": $W, "demo_exit_without_change": $WO, "test_suite_tail_with_change": tests,
                "how": "demo run with PYTHONPATH=<scratch worktree> before/after git stash; pytest -q in the worktree"},
  "author": "independent sub-agent given only the property text and a scratch worktree"},
  open('/verif/seeded/$ID/meta.json','w'), indent=1)
PY
echo "== filed under /verif/seeded/$ID (with=$W without=$WO)"
