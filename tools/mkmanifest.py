#!/usr/bin/env python3
"""Regenerate /verif/MANIFEST.json from the table below (keeps it valid)."""
import json
import os

HERE = os.path.dirname(os.path.dirname(os.path.abspath(__file__)))
PY = "/venv/bin/python"

NA = {
 "C01": "query result is a pure function of (document, path); no I/O, state, time or fault for a simulator to own",
 "C02": "coordinates and re-resolution are two pure calls on an unmodified document; nothing depends on order, delivery or failure",
 "C05": "Merger.merge_with is a pure function of two documents and a policy set; the option product is an input space, not a schedule",
 "C06": "Differ is a pure function; the only nondeterminism near it (hash-seed order of set differences) permutes entries the property treats as a set",
 "C07": "search_for_paths is a pure function of (document, expression, flags); its CLI rendering is covered by C16",
 "C08": "parse / stringify / == / append-pop are pure functions of text or segments",
 "C10": "anchor-conflict resolution is a pure function of two documents and a policy; dump/reload is an in-memory round trip with no failure mode",
 "C11": "targeted merge is a pure function; its one I/O clause (no partial write-out) is checked as a labelled failure cause under C17-A",
 "C12": "Searches.search_matches is a pure predicate on two scalars",
 "C13": "keyword searches are pure functions of a collection and parameters",
 "C14": "totality of a parser over strings; termination and exception type depend on the text alone",
 "C15": "exception type escaping a query is a pure function of (document, path); no resource or fault is quantified",
 "C18": "the three multi-document drivers are deterministic folds over two lists; reading the streams that feed them is exercised under C16",
}

CHECKS = {}   # filled in below as checks are built

CHECKS["C17"] = dict(
 script="checks/c17.py", engine="tool-world", level="fault_enumeration",
 technique="deterministic simulation of the real tool main()s over a simulated file system with single-fault injection enumerated over every I/O step of each scenario's own trace (oserror, torn/short write, crash before/after/torn, emitter assertion, SIGINT at sampled lines)",
 text="Seeded scenarios (yaml-set, yaml-merge, eyaml-rotate-keys; labelled pre-write failure causes and successful edits; --backup on/off; stale .bak variants incl. a directory; leftover neighbour files; symlinked, CRLF, zero-byte and non-YAML targets; files named twice; output modes) are run through the real entry points in a simulated process world; for each scenario every faultable I/O step of its recorded trace is faulted in turn with every applicable fault kind (thorough: all; quick: a seeded sample) plus SIGINT at uniformly sampled traced lines and at the lines around every mutating step, and clauses A-D of the property are checked on the resulting simulated disk (A': a fault-free run that exits non-zero leaves the disk unchanged); session mode strings 3-10 invocations with per-step faults and an operator restore on one disk (clause E). Evidence over sampled scenarios and enumerated fault points, not a proof.",
 note="Trusts the SimFS model of the os/shutil/tempfile file surface (open modes and descriptors, unlink, rename/replace, truncate, chmod/utime, fsync, symbolic links in the last path component, shutil.copy*'s step order), compared with the real file system by selftest/fidelity.py; single fault per run; no power-loss / page-cache model (the code never fsyncs); no concurrent second process.",
 design="DESIGN.md section 3.5")

CHECKS["C19"] = dict(
 script="checks/c19.py", engine="tool-world", level="exploration",
 technique="deterministic simulation of the real eyaml-rotate-keys main() against an in-process fake eyaml peer (keyed randomised reversible cipher over the real command-line protocol) with seeded peer faults (exit non-zero, empty output, echo, wrong key)",
 text="Seeded documents mixing plaintext with encrypted scalars (map values, list elements, Arrays-of-Hashes, anchored with aliases in maps and sequences, plain/quoted/folded/literal, whitespace inside ciphertext, near-miss strings) are rotated by the real tool in the simulated process world; on exit 0 every clause of the property is checked on the re-loaded files and on the peer's call log. Seeded search, not a proof.",
 note="Trusts the fake peer as a model of the eyaml command-line protocol (nothing is claimed about the real hiera-eyaml gem); plaintexts are ASCII, with blanks at either end but no trailing line break (eyaml's output protocol cannot express one); the set of encrypted values is computed by the check's own document walk.",
 design="DESIGN.md section 3.6")

for _pid, _title in (("C03", "set"), ("C04", "delete"), ("C09", "query/create")):
    CHECKS[_pid] = dict(
     script="checks/edit_session.py", args=" --property " + _pid,
     engine="edit-session", level="exploration",
     technique="seeded operation histories (set/create/delete/query/reopen) against the real Processor, refinement-checked step by step against a plain-data reference model, with persist/reopen cycles through the simulated file system",
     text="Each session is one evolving document and a seeded history of 1-12 operations (plus an alias step as history builder, judged only in that its result must still dump and strictly reload) whose paths are drawn against the current state in some twenty path forms (concrete, quoted, negative index, slices, every search operator and keyword, anchors, wildcards, traversal, collectors); after every step the full snapshot (typed data, key and list order, anchors, alias groups) must equal the reference model's prediction for that step (%s oracle), and the document must dump and strictly reload to the same data; about one session in eight drives the same history through the real yaml-set entry point on the simulated file system (one process per step), one in ten uses YAML merge keys. Seeded search over histories, not a proof." % _title,
     note="Which nodes a path matches is taken from the real read path and located through each result's parent container (C01/C02 are not claimed); documents carry no comments or blank lines (ruamel.yaml 0.17.21 mislays them by itself when neighbouring nodes change) and no custom tags; there is no scheduler nondeterminism in this engine, the fault dimension is limited to failed operations and the simulated FS of persist/reopen.",
     design="DESIGN.md section 4")

CHECKS["C16"] = dict(
 script="checks/c16.py", engine="tool-world", level="exploration",
 technique="deterministic simulation of the six real tool main()s in a simulated process world, differential against the library called directly, metamorphic over delivery channels (file / explicit - / implicit stdin with seeded chunking / tty), plus single read-fault injection (oserror, legal short read)",
 text="Seeded scenarios for yaml-get, yaml-set, yaml-merge, yaml-diff, yaml-validate and yaml-paths are run through the real entry points (argument parsing, validation, I/O, formatting, exit plumbing) in the simulated world and compared with the library's answer on an independently loaded copy; yaml-diff's exit status is also judged against plain data equality; every scenario is re-delivered over stdin and must give the same outcome; with no input on a terminal the tools must refuse, not read; under one read fault on a delivered document a run may fail but never succeed with a different answer. Scenarios include configuration files, EYAML decryption through the fake peer, multi-document inputs, alias/tag/value-from-file/value-from-stdin edits; the evidence lists how often each operation ran and with which exit. Seeded search, not a proof.",
 note="The library is the reference for what a tool should print (its own correctness is C01-C07); output formatting rules are re-derived in the check from the tools' documented behaviour; -v/-d chatter is not line-matched.",
 design="DESIGN.md section 3.7")

PENDING = {}
for pid in ():
    if pid not in CHECKS:
        PENDING[pid] = "claimed in DESIGN.md; check under construction, listed here until its command exists"


def main():
    checks = []
    for pid in sorted(CHECKS):
        c = CHECKS[pid]
        extra = c.get("args", "")
        checks.append({
            "property_id": pid,
            "quick_cmd": "%s %s%s --tier quick" % (PY, c["script"], extra),
            "thorough_cmd": "%s %s%s --tier thorough" % (PY, c["script"], extra),
            "evidence_file": "/verif/evidence/%s.json" % pid,
            "replay_cmd_template": "%s %s%s --replay {path}" % (PY, c["script"], extra),
            "engine": c["engine"],
            "level_claimed": {"category": c["level"], "text": c["text"],
                              "design_ref": c["design"]},
            "level_note": c["note"],
            "technique": c["technique"],
        })
    na = dict(NA)
    na.update(PENDING)
    manifest = {
        "version": 1,
        "setup_cmd": PY + " -c \"import ruamel.yaml, yamlpath; print('setup ok')\"",
        "hooks": {
            "guard": "YAMLPATH_VERIF",
            "enable": "no hooks were needed: every seam (open, os/shutil/tempfile names, sys.stdin/stdout/argv, subprocess.run, secrets) is a module-level name the simulator rebinds from outside; the guard name is reserved and unused",
            "baseline_off_cmd": "cd /repo && /venv/bin/python -m pytest -ra -q -p no:cacheprovider --timeout=900 --continue-on-collection-errors",
            "source_commits": [],
            "add_only": True,
        },
        "engines": [
            {"name": "tool-world", "path": "sim/world.py",
             "serves_properties": ["C16", "C17", "C19"],
             "kind_free_text": "deterministic single-process simulation of a console tool's process world (SimFS, scripted stdin/tty, captured stdout/stderr, exit status, fake eyaml peer) with numbered I/O steps and a fault plan"},
            {"name": "edit-session", "path": "checks/edit_session.py",
             "serves_properties": ["C03", "C04", "C09"],
             "kind_free_text": "seeded operation histories against the real Processor with a lock-step plain-data reference model and persist/reopen cycles"},
        ],
        "checks": checks,
        "notes": "Technique family: deterministic simulation with fault injection. See DESIGN.md; selftests under selftest/.",
        "not_applicable": [{"property_id": k, "reason": v}
                           for k, v in sorted(na.items())],
    }
    with open(os.path.join(HERE, "MANIFEST.json"), "w") as fhnd:
        json.dump(manifest, fhnd, indent=1)
        fhnd.write("\n")


if __name__ == "__main__":
    main()
