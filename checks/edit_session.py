#!/venv/bin/python
"""
Edit-session simulation for C03 (set), C04 (delete) and C09 (query purity and
creation): seeded operation histories against the real ``Processor`` with a
plain-data reference model advanced in lock-step and compared after every
step, with persist/reopen cycles through the simulated file system
(DESIGN.md section 4).

usage: edit_session.py --property C03|C04|C09 [--tier quick|thorough]
                       [--replay FILE] [--sessions N]
"""
import argparse
import hashlib
import json
import os
import random
import sys
import time

sys.path.insert(0, os.path.dirname(os.path.dirname(os.path.abspath(__file__))))
from sim import driver  # noqa: E402

driver.bootstrap()

from sim import gen_docs, model, snapshot  # noqa: E402
from sim.util import CommentOverlap, QuietLog, strict_load  # noqa: E402
from sim.world import World  # noqa: E402
from yamlpath import Processor  # noqa: E402
from yamlpath.common import Parsers  # noqa: E402
from yamlpath.enums import YAMLValueFormats  # noqa: E402
from yamlpath.exceptions import YAMLPathException  # noqa: E402
from yamlpath.wrappers import NodeCoords  # noqa: E402
from ruamel.yaml.comments import CommentedSet  # noqa: E402

NEW_VALUES = [9, 2.5, True, "new v", "zeta", 0, False, "b", None,
              9007199254740993, -1700000000123456789, 10.0, 5.0, -0.5,
              1e16, 1e22, -3e20, 0.00002, -1.5e-7, 12345.678, 1.2e16,
              "two words here", "line one\nline two",
              "ends with a blank ", " begins with one", "two  blanks"]
FORMATS = {"str": ["default", "dquote", "squote", "bare", "default",
                   "folded", "literal"],
           "int": ["default", "int"], "float": ["default", "float"],
           "bool": ["default", "boolean"], "null": ["default"]}
SIMPLE = set("abcdefghijklmnopqrstuvwxyzABCDEFGHIJKLMNOPQRSTUVWXYZ0123456789_")


class SessionAbort(Exception):
    """The session left the checkable domain (not a verdict either way)."""


def ruamel_merge_limitation(ex):
    """
    ruamel.yaml 0.17.21 raises KeyError from CommentedMap.__delitem__ when
    the map is the source of a YAML merge key elsewhere (its
    update_key_value bookkeeping); plain ``del data[key]`` on a fresh load
    fails the same way, so the delete cannot be blamed on yamlpath.
    """
    import traceback as tbm
    if not isinstance(ex, KeyError):
        return False
    return any(frame.name == "update_key_value"
               for frame in tbm.extract_tb(ex.__traceback__))


class Violation(Exception):
    def __init__(self, prop, cls, detail):
        super().__init__(cls)
        self.prop = prop
        self.cls = cls
        self.detail = detail


# ----------------------------------------------------------------------
# helpers on live documents
# ----------------------------------------------------------------------
def container_positions(doc):
    table = {}
    for pos, _parent, _ref, node in snapshot.walk(doc):
        if isinstance(node, (dict, list, CommentedSet)):
            table.setdefault(id(node), pos)
    return table


def locate(doc, coords):
    """
    Positions of the nodes a read returned, found through the container
    that *is* each result's parent (NodeCoords.path is not trusted).
    Returns (positions, nodes) or None when a result is not a plain
    document node (collector output and the like).
    """
    table = container_positions(doc)
    out = []
    nodes = []
    slice_run = {}      # (id(parent), ref) -> how many results shared it
    flat = []
    for crd in coords:
        # an array slice is reported as ONE result wrapping its elements
        if isinstance(crd, NodeCoords) and isinstance(crd.node, list) \
                and crd.node and isinstance(crd.parent, list) \
                and all(isinstance(e, NodeCoords) and e.parent is crd.parent
                        for e in crd.node):
            flat.extend(crd.node)
        else:
            flat.append(crd)
    for crd in flat:
        if not isinstance(crd, NodeCoords):
            return None
        node = crd.node
        if isinstance(node, NodeCoords) or (
                isinstance(node, list) and node
                and isinstance(node[0], NodeCoords)):
            return None
        parent = crd.parent
        ref = crd.parentref
        if type(node) is list and len(node) == 1 \
                and isinstance(parent, list) and isinstance(ref, int) \
                and -len(parent) <= ref < len(parent) \
                and parent[ref] is node[0]:
            # a one-element slice [n:n] is reported as a fresh plain list
            # wrapping the element in slot n: the match is that element
            node = node[0]
        if parent is None:
            if node is doc:
                out.append(())
                nodes.append(node)
                continue
            return None
        ppos = table.get(id(parent))
        if ppos is None:
            return None
        if isinstance(parent, CommentedSet):
            out.append(ppos + (("k", snapshot.typed(ref)),))
        elif isinstance(parent, dict):
            if ref not in parent or parent[ref] is not node:
                return None
            out.append(ppos + (("k", snapshot.typed(ref)),))
        elif isinstance(parent, list):
            if not isinstance(ref, int):
                return None
            if ref < 0:
                ref += len(parent)
            # the elements of an array slice [m:n] are all reported with
            # parentref m (deleting slot m repeatedly removes the slice):
            # the j-th result sharing (parent, m) sits in slot m + j
            key = (id(parent), ref)
            offset = slice_run.get(key, 0)
            slice_run[key] = offset + 1
            ref += offset
            if not 0 <= ref < len(parent) or parent[ref] is not node:
                return None
            out.append(ppos + (("i", ref),))
        else:
            return None
        nodes.append(node)
    return out, nodes


def dump_text(doc, knobs):
    """Serialise through the simulated file system (real io stack)."""
    world = World({"/sim/w/keep": ""}, knobs=knobs)
    yaml = Parsers.get_yaml_editor()
    with world.sim_open("/sim/w/session.yaml", "w") as fhnd:
        yaml.dump(doc, fhnd)
    world.dead = True
    return bytes(world.fs["/sim/w/session.yaml"]).decode("utf-8")


def _walk_ids(node, seen):
    if id(node) in seen:
        return
    if isinstance(node, dict):
        seen.add(id(node))
        for val in list(node.values()):
            _walk_ids(val, seen)
    elif isinstance(node, list):
        seen.add(id(node))
        for val in node:
            _walk_ids(val, seen)


def merge_sources(doc):
    """ids of the hashes that some other hash merges in through ``<<``."""
    found = set()
    seen = set()

    def walk(node):
        if id(node) in seen:
            return
        if isinstance(node, dict):
            seen.add(id(node))
            for _pos, src in getattr(node, "merge", None) or []:
                found.add(id(src))
                walk(src)
            for val in list(node.values()):
                walk(val)
        elif isinstance(node, list):
            seen.add(id(node))
            for val in node:
                walk(val)
    walk(doc)
    return found


def merge_chains(doc):
    """Does some hash inherit from a hash that inherits?  (ruamel refreshes
    inherited copies one level deep only.)"""
    sources = merge_sources(doc)
    seen = set()

    def walk(node):
        if id(node) in seen:
            return False
        if isinstance(node, dict):
            seen.add(id(node))
            merged = getattr(node, "merge", None) or []
            if merged and id(node) in sources:
                return True
            return any(walk(src) for _p, src in merged) or \
                any(walk(val) for val in list(node.values()))
        if isinstance(node, list):
            seen.add(id(node))
            return any(walk(val) for val in node)
        return False
    return walk(doc)


def merged_view(typed):
    """Typed data with every hash's pairs sorted (inheritance order is not
    part of what a reader sees)."""
    if isinstance(typed, tuple) and typed and typed[0] == "m":
        return ("m", tuple(sorted(((merged_view(k), merged_view(v))
                                   for k, v in typed[1]), key=repr)))
    if isinstance(typed, tuple) and typed and typed[0] == "l":
        return ("l", tuple(merged_view(v) for v in typed[1]))
    return typed


def reload_check(doc, knobs, prop, what):
    try:
        text = dump_text(doc, knobs)
    except Exception as ex:  # pylint: disable=broad-except
        raise Violation(prop, "serialize-raised:" + type(ex).__name__,
                        {"after": what, "error": str(ex)[:200]}) from ex
    try:
        again, loaded = strict_load(text)
    except CommentOverlap as ex:
        raise SessionAbort("ruamel cannot re-attach the comments of its own "
                           "dump") from ex
    if not loaded:
        raise Violation(prop, "reload-rejected-by-strict-loader",
                        {"after": what, "yaml": text[:600]})
    # "reloads to the same data": typed data, key order and list order.
    # (Anchor names are presentation: ruamel itself drops the anchor of
    # "&A 0" on load, so they are not compared across a reload.)
    want = snapshot.typed(doc)
    got = snapshot.typed(again)
    if want != got:
        raise Violation(prop, "reload-differs",
                        {"after": what, "yaml": text[:600],
                         "diff": model.diff((want, (), ()), (got, (), ()))})
    return again


# ----------------------------------------------------------------------
# path generation against the current model
# ----------------------------------------------------------------------
def simple(text):
    return isinstance(text, str) and text != "" and set(text) <= SIMPLE


def seg_text(seg, sep, quote=None):
    kind, ref = seg
    if kind == "i":
        return "[%d]" % ref
    if ref[0] == "int":
        return str(ref[1])
    return gen_docs.escape_key(ref[1], sep, quote)


def render(segs, sep, quote=None):
    """``quote``: write keys holding special characters as "..." / '...'
    instead of escaping each character."""
    if sep == "/":
        return "/" + "/".join(seg_text(s, "/", quote) for s in segs)
    out = ""
    for seg in segs:
        if seg[0] == "i":
            out += "[%d]" % seg[1]
        else:
            out += ("." if out else "") + seg_text(seg, ".", quote)
    return out


def join(base, extra, sep):
    if not extra:
        return base
    if sep == "/":
        return (base if base != "/" else "") + "/" + extra
    if extra.startswith("["):
        return base + extra
    return (base + "." if base else "") + extra


def gen_path(rng, tree, want="any"):
    """
    A YAML Path drawn against the current document.  ``want``:
    "scalar" (favour paths selecting scalars), "any" (any non-root node).
    Returns (path text, form label).
    """
    posns = [(p, n) for p, n in model.walk(tree) if p]
    if not posns:
        return "/nothing", "unmatched"
    if want == "scalar":
        scal = [(p, n) for p, n in posns if n.kind == "s"]
        if scal and rng.random() < 0.9:
            posns = scal
    pos, node = rng.choice(posns)
    sep = rng.choice([".", ".", "/"])
    parent_pos = pos[:-1]
    parent = model.at(tree, parent_pos)
    base = render(parent_pos, sep)
    last = pos[-1]
    roll = rng.random()
    if roll < 0.42:
        if roll < 0.07:
            return render(pos, sep, rng.choice(['"', "'"])), "concrete"
        return render(pos, sep), "concrete"
    if last[0] == "i":
        size = len(parent.items)
        if roll < 0.48:
            return join(base, "[%d]" % (last[1] - size), sep), "negative-index"
        if roll < 0.52 and base not in ("", "/"):
            # a list position written as a bare (possibly negative) key
            ref = last[1] - size if rng.random() < 0.7 else last[1]
            if sep == "/":
                return base + "/%d" % ref, "index-as-key"
            return base + ".%d" % ref, "index-as-key"
        if roll < 0.56:
            lo = last[1] - size
            hi = lo + 1
            text = "[%d:%d]" % (lo, hi if hi < 0 else size)
            return join(base, text, sep), "negative-slice"
        if roll < 0.575:
            # a one-element slice [n:n]: the read path reports it as one
            # result whose node is a fresh list wrapping the element (S04o)
            ref = last[1] - size if rng.random() < 0.4 else last[1]
            return join(base, "[%d:%d]" % (ref, ref), sep), "point-slice"
        if roll < 0.62:
            lo = rng.randrange(0, last[1] + 1)
            hi = rng.randrange(last[1] + 1, size + 1)
            return join(base, "[%d:%d]" % (lo, hi), sep), "slice"
        if roll < 0.70 and node.kind == "s" and \
                node.value[0] in ("str", "int") and simple(str(node.value[1])):
            text = str(node.value[1])
            if node.value[0] == "int":
                oper = rng.choice(["=", "=", ">=", "<=", "!=", ">", "<"])
                form = "[.%s%s]" % (oper, text)
            else:
                oper = rng.choice(["=", "=", "^", "$", "%", "!=", "=~"])
                if oper == "=~":
                    form = "[.=~/%s/]" % text[0]
                elif oper in ("^", "$", "%"):
                    form = "[.%s%s]" % (oper, text[0] if oper != "$"
                                        else text[-1])
                else:
                    form = "[.%s%s]" % (oper, text)
            if rng.random() < 0.15:
                form = "[!" + form[1:]
            return join(base, form, sep), "search-" + oper
        if roll < 0.76 and node.kind == "m" and node.items:
            key, val = rng.choice(node.items)
            if val.kind == "s" and val.value[0] in ("str", "int") and \
                    simple(key[1]) and simple(str(val.value[1])):
                return join(base, "[%s=%s]" % (key[1], val.value[1]), sep), \
                    "search-aoh"
        if roll < 0.82 and node.anchor and simple(node.anchor):
            return join(base, "[&%s]" % node.anchor, sep), "anchor"
    else:
        key = last[1][1]
        if roll < 0.52 and simple(key):
            return join(base, "[.=%s]" % key, sep), "search-keyname"
        if roll < 0.60 and simple(key):
            return join(base, "[.^%s]" % key[0], sep), "search-prefix"
        if roll < 0.66 and node.anchor and simple(node.anchor):
            return join(base, "&" + node.anchor, sep), "anchor"
        if roll < 0.72 and simple(key):
            return join(base, "[.=~/^%s/]" % key[0], sep), "search-regex"
    if roll < 0.88:
        return join(base, "*", sep), "wildcard"
    if roll < 0.94:
        return join(base, "**", sep), "traversal"
    if node.kind == "s" and node.value[0] == "str" and simple(node.value[1]):
        return join(base, "**[.=%s]" % node.value[1], sep) if sep == "." \
            else join(base, "**", sep), "traversal"
    return render(pos, sep), "concrete"


def gen_keyword(rng, tree):
    """A query through one of the search keywords ([has_child()], ...)."""
    posns = [(p, n) for p, n in model.walk(tree) if p]
    if not posns:
        return "/nothing", "unmatched"
    pos, node = rng.choice(posns)
    sep = rng.choice([".", "/"])
    here = render(pos, sep)
    up = render(pos[:-1], sep)
    forms = [("[name()]", here), ("[parent()]", here),
             ("[parent(%d)]" % rng.choice([1, 2, 3]), here)]
    if node.kind == "m":
        keys = [k[1] for k, _v in node.items
                if k[0] == "str" and simple(k[1])] or ["zz"]
        key = rng.choice(keys + ["nokey"])
        forms += [("[has_child(%s)]" % key, up),
                  ("[!has_child(%s)]" % key, up),
                  ("[has_child(%s)]" % key, here),
                  ("[max(%s)]" % key, up), ("[min(%s)]" % key, up),
                  ("[!max(%s)]" % key, up)]
    if node.kind == "l":
        forms += [("[max()]", here), ("[min()]", here), ("[unique()]", here),
                  ("[distinct()]", here), ("[!max()]", here),
                  ("[has_child(%s)]" % rng.choice(["a", "b", "0"]), here)]
        inner = [k[1] for item in node.items if item.kind == "m"
                 for k, _v in item.items if k[0] == "str" and simple(k[1])]
        if inner:
            key = rng.choice(inner)
            forms += [("[max(%s)]" % key, here), ("[min(%s)]" % key, here),
                      ("[has_child(%s)]" % key, here),
                      ("[!min(%s)]" % key, here)]
    text, base = rng.choice(forms)
    path = join(base, text, sep)
    if rng.random() < 0.25:
        path = join(path, rng.choice(["*", "[name()]", "[parent()]"]), sep)
    return path, "keyword-" + text[1:].split("(")[0].lstrip("!")


def gen_collector(rng, tree):
    """(p1) op (p2) over two paths, favouring hashes that share pairs."""
    maps = [(p, n) for p, n in model.walk(tree) if n.kind == "m" and p]
    lists = [(p, n) for p, n in model.walk(tree) if n.kind == "l" and p]
    oper = rng.choice(["+", "-", "-", "&"])
    pool = maps if (maps and rng.random() < 0.6) else (lists or maps)
    if not pool:
        path, _ = gen_path(rng, tree)
        return "(%s)" % path, "collector-single"
    lhs, lnode = rng.choice(pool)
    roll = rng.random()
    sep = "."
    ltxt = render(lhs, sep)
    if roll < 0.5 and lnode.kind == "m" and lnode.items:
        key, _val = rng.choice(lnode.items)
        rtxt = render(lhs + (("k", key),), sep)
        form = "collector%s:hash-vs-own-child" % oper
    else:
        rhs, _rnode = rng.choice(pool)
        rtxt = render(rhs, sep)
        form = "collector%s:%s-vs-%s" % (oper, lnode.kind, _rnode.kind)
    if rng.random() < 0.3:
        ltxt = join(render(lhs[:-1], sep), "*", sep)
    text = "(%s)%s(%s)" % (ltxt, oper, rtxt)
    # chains: (L)-(R1)-(R2), (L)+(R1)-(R2), ...
    for _ in range(rng.choice([0, 0, 1, 1, 2])):
        oper2 = rng.choice(["+", "-", "-", "&"])
        if lnode.kind == "m" and lnode.items and rng.random() < 0.7:
            key, _val = rng.choice(lnode.items)
            extra = render(lhs + (("k", key),), sep)
        else:
            other, _n = rng.choice(pool)
            extra = render(other, sep)
        text += "%s(%s)" % (oper2, extra)
        form += "|chain" + oper2
    return text, form


def gen_create(rng, tree):
    """Concrete key/index path: existing prefix + missing tail."""
    conts = [(p, n) for p, n in model.walk(tree) if n.kind in ("m", "l")]
    # containers reachable through set members are not addressable
    pos, node = rng.choice(conts)
    # A null leaf as the end of the existing prefix ("key:" left empty, to be
    # filled in later): the tail has to grow out of the placeholder.
    nulls = [(p, n) for p, n in model.walk(tree)
             if p and n.kind == "s" and n.value == ("null", None)
             and n.anchor is None]
    if nulls and rng.random() < 0.2:
        pos, node = rng.choice(nulls)
    # ... or at any other scalar (0, false and "" are scalars like 7 and
    # "x"): nothing can be created beneath it, the request must be refused
    scalars = [(p, n) for p, n in model.walk(tree)
               if p and n.kind == "s" and n.value != ("null", None)]
    if scalars and rng.random() < 0.08:
        falsy = [(p, n) for p, n in scalars
                 if n.value[1] in (0, False, "")]
        pos, node = rng.choice(falsy if falsy and rng.random() < 0.6
                               else scalars)
    tail = []
    if node.kind == "s":
        if rng.random() < 0.6:
            tail.append(("k", ("str", rng.choice(["zz", "sub", "new key"]))))
        else:
            tail.append(("i", rng.choice([0, 0, 1])))
    elif node.kind == "m":
        used = {k for k, _ in node.items}
        fresh = [k for k in ("zz", "yy", "q1", "new key", "n.k", "zz*",
                             "*", "a&b", "zz2", "zz3", "zz4", "zz5", "zz6",
                             "zz7", "zz8")
                 if ("str", k) not in used]
        tail.append(("k", ("str", rng.choice(fresh[:8]))))
    else:
        size = len(node.items)
        tail.append(("i", size + rng.choice([0, 0, 1, 2])))
    for _ in range(rng.choice([0, 0, 1, 2])):
        if rng.random() < 0.6:
            tail.append(("k", ("str", rng.choice(["sub", "zz", "leaf"]))))
        else:
            tail.append(("i", rng.choice([0, 0, 1, 2])))
    return list(pos), tail


# ----------------------------------------------------------------------
# step execution with oracles
# ----------------------------------------------------------------------
def fmt_of(name):
    return YAMLValueFormats.from_str(name)


class Session:
    """One evolving document, one client, oracles after every step."""

    def __init__(self, text, knobs=None, cli=False):
        self.knobs = knobs or {}
        self.cli = cli
        self.text = text
        doc, loaded = strict_load(text)
        if not loaded or doc is None:
            raise ValueError("generator produced an unloadable document")
        self.doc = doc
        self.debug = bool(self.knobs.get("debug_log"))
        self.merged_clean = True    # no assignment yet (see do_delete)
        self.proc = Processor(self.newlog(), doc)
        self.stats = {"steps": 0, "skipped": 0, "refused": 0, "matched": 0,
                      "forms": set(), "last_mutator": "C03"}
        # Domain guard: a document which ruamel cannot round-trip even
        # unedited (e.g. a !!set inside a flow collection) cannot have an
        # edit blamed for its failure to reload.
        self.roundtrips = True
        try:
            again, okay = strict_load(dump_text(doc, {}))
            self.roundtrips = okay and \
                snapshot.typed(again) == snapshot.typed(doc)
        except Exception:  # pylint: disable=broad-except
            self.roundtrips = False

    # -- shared ---------------------------------------------------------
    def read(self, path):
        """Real read path; its purity is a C09 obligation in itself."""
        before = snapshot.full(self.doc)
        try:
            coords = list(self.proc.get_nodes(path, mustexist=True))
        except YAMLPathException:
            coords = None
        except RecursionError:
            coords = None
        after = snapshot.full(self.doc)
        if before != after:
            raise Violation("C09", "read-modified-document",
                            {"path": path, "mode": "required",
                             "diff": model.diff(before, after)})
        return coords

    def newlog(self):
        from sim.util import debug_log
        return debug_log() if self.debug else QuietLog()

    def step(self, oper):
        try:
            if self.debug:
                import contextlib
                import io
                with contextlib.redirect_stdout(io.StringIO()):
                    return self.step_(oper)
            return self.step_(oper)
        except CommentOverlap as ex:
            raise SessionAbort("ruamel cannot attach the comments of a "
                               "document it wrote") from ex

    def step_(self, oper):
        self.stats["steps"] += 1
        kind = oper["op"]
        if self.cli:
            # every invocation is a new process: state lives in the file
            self.doc, loaded = strict_load(self.text)
            if not loaded:
                raise Violation(self.stats["last_mutator"],
                                "cli-file-no-longer-loads",
                                {"yaml": self.text[:400]})
            self.proc = Processor(self.newlog(), self.doc)
            if kind in ("query", "reopen"):
                self.stats["skipped"] += 1
                return
        if kind == "set":
            self.do_set(oper)
        elif kind == "delete":
            self.do_delete(oper)
        elif kind == "delete-root":
            self.do_delete_root(oper)
        elif kind == "query":
            self.do_query(oper)
        elif kind == "create":
            self.do_create(oper)
        elif kind == "reopen":
            self.do_reopen()
        elif kind == "alias":
            self.do_alias(oper)
        else:
            raise ValueError(kind)

    def do_alias(self, oper):
        """
        History builder, not judged: make one scalar an alias of another
        (``yaml-set --aliasof``).  No property speaks about this operation;
        it is here because later sets, deletes and creations must hold on
        documents whose anchors were made by the library itself.
        """
        pre_ok = True
        self.merged_clean = False
        try:
            if self.cli:
                argv = ["--change=" + oper["path"],
                        "--aliasof=" + oper["source"]]
                if oper.get("anchor"):
                    argv.append("--anchor=" + oper["anchor"])
                done, _txt = self.run_cli(argv, "C03", "alias",
                                          allow_refusal=True)
                if done is None:
                    self.stats["refused"] += 1
                return
            self.proc.alias_nodes(oper["path"], oper["source"],
                                  anchor_name=oper.get("anchor"))
        except Violation as ex:
            raise SessionAbort("alias step failed in the tool: %s"
                               % ex.cls) from ex
        except YAMLPathException:
            self.stats["refused"] += 1
            return
        except Exception as ex:  # pylint: disable=broad-except
            raise SessionAbort("alias step raised %s"
                               % type(ex).__name__) from ex
        loaded = True
        try:
            again, okay = strict_load(dump_text(self.doc, self.knobs))
            loaded = bool(okay)
            pre_ok = okay and snapshot.typed(again) == snapshot.typed(self.doc)
        except Exception:  # pylint: disable=broad-except
            pre_ok = False
            loaded = False
        if not loaded and not self.cli:
            # C03's last clause: whatever a set does - --aliasof is one -
            # the document must still dump to YAML the strict loader takes
            raise Violation("C03", "alias:dump-does-not-reload",
                            "after alias_nodes(%r, %r, anchor_name=%r) the "
                            "document no longer reloads"
                            % (oper["path"], oper["source"],
                               oper.get("anchor")))
        if not pre_ok:
            raise SessionAbort("alias step left a document that does not "
                               "round-trip")

    # -- the same edit through the real yaml-set entry point ------------
    TARGET = "/sim/w/doc.yaml"

    def run_cli(self, argv, prop, what, expect_failure=False,
                allow_refusal=False):
        if self.debug:
            argv = ["--debug"] + argv
        recipe = {"tool": "yaml-set", "argv": argv + [self.TARGET],
                  "files": {self.TARGET: self.text}, "knobs": self.knobs,
                  "stdin": "", "tty": True}
        res = driver.execute(recipe)
        after = res.fs.get(self.TARGET, b"").decode("utf-8", "replace")
        if expect_failure:
            return res, after
        if res.exit != 0 and allow_refusal and not res.traceback \
                and after == self.text:
            return None, after
        if res.exit != 0:
            if res.traceback and res.traceback.startswith("KeyError") \
                    and "<<:" in self.text:
                raise SessionAbort("ruamel merge-source delete (cli)")
            raise Violation(prop, "cli-exit-%s-on-matched-path" % res.exit,
                            {"what": what, "argv": argv,
                             "stderr": res.stderr[-300:],
                             "traceback": res.traceback})
        again, loaded = strict_load(after)
        if not loaded:
            raise Violation(prop, "reload-rejected-by-strict-loader",
                            {"after": what, "yaml": after[:600]})
        self.text = after
        self.doc = again
        self.proc = Processor(self.newlog(), again)
        return res, after

    @staticmethod
    def cli_value(value, fmt):
        """argv spelling of a native value (None is --null)."""
        if value is None:
            return ["-N"]
        if isinstance(value, bool):
            text = "true" if value else "false"
        else:
            text = str(value)
        # (argparse takes "-3e+20" for an option; "--value=" is unambiguous)
        out = ["--value=" + text] if text.startswith("-") else ["-a", text]
        if fmt and fmt != "default":
            out += ["-F", fmt]
        return out

    def cli_compare(self, prop, expected, what, detail):
        want = model.typed_of(expected)
        got = snapshot.typed(self.doc)
        if want != got:
            detail = dict(detail, diff=model.diff((want, (), ()),
                                                  (got, (), ())),
                          yaml=self.text[:500])
            raise Violation(prop, what, detail)

    # -- C03 ------------------------------------------------------------
    def do_set(self, oper):
        self.merged_clean = False
        path = oper["path"]
        tree = model.build(self.doc)
        pre = model.canon(tree)
        coords = self.read(path)
        if not coords:
            self.stats["skipped"] += 1
            return
        found = locate(self.doc, coords)
        if found is None:
            self.stats["skipped"] += 1
            return
        positions, nodes = found
        if any(isinstance(n, (dict, list, CommentedSet)) for n in nodes):
            self.stats["skipped"] += 1      # outside C03's domain
            return
        try:
            targets = [model.at(tree, p) for p in positions]
        except (KeyError, IndexError):
            self.stats["skipped"] += 1      # set members: not addressable
            return
        value = oper["value"]
        expected = tree.clone()
        model.apply_set(expected, positions, snapshot.typed_scalar(value))
        kwargs = {"mustexist": oper.get("mustexist", True)}
        if oper.get("format") and oper["format"] != "default":
            kwargs["value_format"] = fmt_of(oper["format"])
        self.stats["matched"] += 1
        self.stats["last_mutator"] = "C03"
        if self.cli:
            argv = ["--change=" + path] + \
                self.cli_value(value, oper.get("format"))
            if oper.get("mustexist", True):
                argv.append("-m")
            if oper.get("saveto") and len(positions) == 1 \
                    and oper.get("form") == "concrete" \
                    and expected.kind == "m" \
                    and all(k != ("str", "zz_saved")
                            for k, _v in expected.items):
                # --saveto: the old value is kept under a new key; the set
                # itself (aliases included) is what it is without it
                argv.append("--saveto=/zz_saved")
                expected.items.append((
                    ("str", "zz_saved"),
                    model.MNode("s", value=targets[0].value)))
                self.stats["forms"].add(("set", "cli-saveto"))
            self.run_cli(argv, "C03", "set " + path)
            self.cli_compare("C03", expected, "frame-or-value",
                             {"path": path, "value": value, "via": "cli",
                              "matched": [render(p, "/")
                                          for p in positions]})
            return
        try:
            self.proc.set_value(path, value, **kwargs)
        except YAMLPathException as ex:
            self.stats["refused"] += 1
            raise Violation("C03", "set-refused-on-matched-scalars",
                            {"path": path, "value": value,
                             "error": str(ex)[:200]}) from ex
        except Exception as ex:  # pylint: disable=broad-except
            raise Violation("C03", "set-raised:" + type(ex).__name__,
                            {"path": path, "value": value,
                             "error": str(ex)[:200]}) from ex
        post = snapshot.full(self.doc)
        want = model.canon(expected)
        if post != want:
            raise Violation("C03", "frame-or-value",
                            {"path": path, "value": value,
                             "matched": [render(p, "/") for p in positions],
                             "diff": model.diff(want, post),
                             "unchanged": post == pre})
        reload_check(self.doc, self.knobs, "C03", "set " + path)

    # -- C04 ------------------------------------------------------------
    def do_delete(self, oper):
        path = oper["path"]
        tree = model.build(self.doc)
        coords = self.read(path)
        if not coords:
            self.stats["skipped"] += 1
            return
        found = locate(self.doc, coords)
        if found is None:
            self.stats["skipped"] += 1
            return
        positions, _nodes = found
        if () in positions:
            self.stats["skipped"] += 1      # root: see do_delete_root
            return
        expected = tree.clone()
        try:
            model.apply_delete(expected, positions)
        except (KeyError, IndexError):
            self.stats["skipped"] += 1
            return
        self.stats["matched"] += 1
        self.stats["last_mutator"] = "C04"
        # for the merged-view clause below: scalars that their parent hash
        # owns (an inherited pair cannot be deleted from the inheriting hash,
        # and deleting the merged hash itself takes its pairs with it)
        merged_ok = self.merged_clean and not self.cli \
            and "<<" in self.text and not merge_chains(self.doc)
        if merged_ok:
            for pos in positions:
                try:
                    holder = snapshot.get_at(self.doc, pos[:-1])
                    mnode = model.at(tree, pos)
                except (KeyError, IndexError, TypeError):
                    merged_ok = False
                    break
                if mnode.kind != "s" or getattr(holder, "merge", None):
                    # (a hash that inherits: deleting its own pair uncovers
                    # the inherited one in the file, not in ruamel's memory)
                    merged_ok = False
                    break
                if hasattr(holder, "non_merged_items") and pos[-1][0] == "k" \
                        and pos[-1][1] not in {
                            snapshot.typed(k)
                            for k, _v in holder.non_merged_items()}:
                    merged_ok = False
                    break
        if not merged_ok:
            # ruamel's in-memory view through merge keys may be stale from
            # here on; the clause is not applied to later steps either
            self.merged_clean = False
        if "<<" in self.text and not self.cli:
            # Deleting a hash that another hash merges in leaves the merging
            # hash holding an orphan (ruamel keeps the reference and inlines
            # it on dump): the document is no longer one a loader produces,
            # and nothing that follows can be blamed on an edit.
            sources = merge_sources(self.doc)
            inside = set()
            for node in _nodes:
                _walk_ids(node, inside)
            if sources & inside:
                raise SessionAbort("delete of a merged-in hash (orphaned "
                                   "merge source)")
        if self.cli:
            self.run_cli(["--change=" + path, "-D"], "C04",
                         "delete " + path)
            self.cli_compare("C04", expected, "wrong-nodes-removed",
                             {"path": path, "via": "cli",
                              "matched": [render(p, "/")
                                          for p in positions]})
            return
        try:
            if oper.get("route") == "gathered":
                self.proc.delete_gathered_nodes(coords)
            else:
                for _ in self.proc.delete_nodes(path):
                    pass
        except Exception as ex:  # pylint: disable=broad-except
            if ruamel_merge_limitation(ex):
                raise SessionAbort("ruamel merge-source delete") from ex
            raise Violation("C04", "delete-raised:" + type(ex).__name__,
                            {"path": path, "route": oper.get("route"),
                             "matched": [render(p, "/") for p in positions],
                             "error": str(ex)[:200]}) from ex
        post = snapshot.full(self.doc)
        want = model.canon(expected)
        if post != want:
            raise Violation("C04", "wrong-nodes-removed",
                            {"path": path, "route": oper.get("route"),
                             "matched": [render(p, "/") for p in positions],
                             "diff": model.diff(want, post)})
        again = reload_check(self.doc, self.knobs, "C04", "delete " + path)
        if merged_ok:
            # What a reader sees *through* YAML merge keys must agree with
            # what was written: a deleted key may not live on in the hashes
            # that inherited it.  (Only while every step so far was a delete
            # or a read: ruamel itself does not refresh inherited copies
            # after an assignment, which is not yamlpath's doing.)
            want = merged_view(snapshot.typed_merged(self.doc))
            got = merged_view(snapshot.typed_merged(again))
            if want != got:
                raise Violation(
                    "C04", "deleted-node-still-visible-through-a-merge-key",
                    {"path": path,
                     "diff": model.diff((want, (), ()), (got, (), ()))})

    def do_delete_root(self, oper):
        if self.cli:
            res, after = self.run_cli(["-g", "/", "-D"], "C04",
                                      "delete root", expect_failure=True)
            if res.exit == 0:
                raise Violation("C04", "root-delete-not-refused",
                                {"via": "cli"})
            if after != self.text:
                raise Violation("C04", "root-delete-changed-document",
                                {"via": "cli"})
            return
        pre = snapshot.full(self.doc)
        raised = None
        try:
            if oper.get("route") == "gathered":
                coords = list(self.proc.get_nodes("/", mustexist=True))
                self.proc.delete_gathered_nodes(coords)
            else:
                for _ in self.proc.delete_nodes("/"):
                    pass
        except YAMLPathException as ex:
            raised = ex
        except Exception as ex:  # pylint: disable=broad-except
            raise Violation("C04", "root-delete-raised:" + type(ex).__name__,
                            {"error": str(ex)[:200]}) from ex
        if raised is None:
            raise Violation("C04", "root-delete-not-refused", {})
        if snapshot.full(self.doc) != pre:
            raise Violation("C04", "root-delete-changed-document", {})

    # -- C09 ------------------------------------------------------------
    def do_query(self, oper):
        path = oper["path"]
        mode = oper.get("mode", "required")
        pre = snapshot.full(self.doc)
        try:
            if mode == "exists":
                self.proc.exists(path)
            elif mode == "first":
                gen = self.proc.get_nodes(path, mustexist=True)
                next(gen, None)
                gen.close()
            elif mode == "optional":
                # only on a path that exists, decided by the model itself
                tree = model.build(self.doc)
                if not model.exists(tree, tuple(
                        (k, tuple(r) if isinstance(r, list) else r)
                        for k, r in oper["segs"])):
                    self.stats["skipped"] += 1
                    return
                list(self.proc.get_nodes(path, mustexist=False,
                                         default_value=oper.get("value")))
            else:
                list(self.proc.get_nodes(path, mustexist=True))
        except YAMLPathException:
            pass
        except RecursionError:
            pass
        except Exception as ex:  # pylint: disable=broad-except
            if snapshot.full(self.doc) != pre:
                raise Violation("C09", "read-modified-document",
                                {"path": path, "mode": mode,
                                 "error": type(ex).__name__}) from ex
            # an exception type escaping a query is C15's business
            self.stats["refused"] += 1
            return
        self.stats["matched"] += 1
        post = snapshot.full(self.doc)
        if post != pre:
            raise Violation("C09", "read-modified-document",
                            {"path": path, "mode": mode,
                             "diff": model.diff(pre, post)})

    def do_create(self, oper):
        self.merged_clean = False
        base = tuple((k, tuple(r) if isinstance(r, list) else r)
                     for k, r in oper["base"])
        tail = tuple((k, tuple(r) if isinstance(r, list) else r)
                     for k, r in oper["tail"])
        tree = model.build(self.doc)
        if not model.exists(tree, base) or \
                model.exists(tree, base + tail[:1]):
            self.stats["skipped"] += 1
            return
        holder = model.at(tree, base)
        grown = holder.kind == "s" and holder.value == ("null", None) \
            and holder.anchor is None and len(base) > 0
        blocked = holder.kind == "s" and not grown and len(base) > 0
        if blocked:
            # Existing prefix ends at a real scalar: the path cannot come to
            # resolve without destroying that scalar, so the only acceptable
            # outcome is a refusal that changes nothing.
            self.stats["forms"].add(("create", "create-under-scalar"))
        elif grown:
            # Existing prefix ends at a null placeholder.  Both clauses of
            # the property cannot hold at once here (the path can only
            # resolve if the null becomes a container), so two outcomes are
            # accepted: a refusal that changes nothing, or the placeholder
            # growing into exactly the missing tail.  Writing the value
            # anywhere else is a violation.
            self.stats["forms"].add(("create", "create-under-null"))
        elif holder.kind not in ("m", "l") or \
                (holder.kind == "m") != (tail[0][0] == "k"):
            self.stats["skipped"] += 1
            return
        try:
            live = snapshot.get_at(self.doc, base)
        except (KeyError, IndexError, TypeError):
            live = None
        if isinstance(live, dict) and tail[0][0] == "k" and \
                any(snapshot.typed(k) == tail[0][1] for k in live.keys()):
            # present through a YAML merge key: the path exists already,
            # this is not a creation
            self.stats["skipped"] += 1
            return
        path = render(base + tail, oper.get("sep", "/"), oper.get("quote"))
        value = oper["value"]
        pre_nodes = {p: model.typed_of(n) for p, n in model.walk(tree)}
        pre_anchors = model.canon(tree)[1:]
        self.stats["matched"] += 1
        self.stats["last_mutator"] = "C09"
        if self.cli:
            done, _txt = self.run_cli(
                ["--change=" + path] + self.cli_value(value, None),
                "C09", "create " + path, allow_refusal=grown or blocked)
            if done is None:
                self.stats["refused"] += 1
                return
        try:
            if self.cli:
                pass
            elif oper.get("via") == "get":
                list(self.proc.get_nodes(path, mustexist=False,
                                         default_value=value))
            else:
                self.proc.set_value(path, value, mustexist=False)
        except YAMLPathException as ex:
            if grown or blocked:
                if model.canon(model.build(self.doc)) != model.canon(tree):
                    raise Violation(
                        "C09", "refused-creation-changed-document",
                        {"path": path, "error": str(ex)[:200]}) from ex
                self.stats["refused"] += 1
                return
            raise Violation("C09", "creation-refused",
                            {"path": path, "error": str(ex)[:200]}) from ex
        except Exception as ex:  # pylint: disable=broad-except
            raise Violation("C09", "creation-raised:" + type(ex).__name__,
                            {"path": path, "error": str(ex)[:200]}) from ex
        after = model.build(self.doc)
        full = base + tail
        if blocked:
            raise Violation(
                "C09", "creation-beneath-a-scalar-was-not-refused",
                {"path": path, "scalar": model.typed_of(holder),
                 "diff": model.diff(model.canon(tree), model.canon(after))})
        if grown:
            # from here on the placeholder counts as the (empty) container
            # it has to become
            pre_nodes[base] = ("m", ()) if tail[0][0] == "k" else ("l", ())
            holder = model.MNode("m" if tail[0][0] == "k" else "l", [])
        # (a) the path now resolves to the supplied value
        try:
            leaf = model.at(after, full)
        except (KeyError, IndexError):
            raise Violation("C09", "created-path-does-not-resolve",
                            {"path": path}) from None
        if model.typed_of(leaf) != snapshot.typed_scalar(value):
            raise Violation("C09", "created-path-holds-wrong-value",
                            {"path": path, "want": value,
                             "got": model.typed_of(leaf)})
        post_nodes = {p: model.typed_of(n) for p, n in model.walk(after)}
        # (b) every node that existed before is unchanged
        for pos, val in pre_nodes.items():
            if full[:len(pos)] == pos:
                if pos not in post_nodes or post_nodes[pos][0] != val[0]:
                    raise Violation("C09", "creation-changed-existing-node",
                                    {"path": path,
                                     "at": render(pos, "/")})
                if val[0] == "m":
                    # a container on the path gains children; the keys it
                    # already had keep their relative order
                    was = [k for k, _v in val[1]]
                    now = [k for k, _v in post_nodes[pos][1] if k in was]
                    if was != now:
                        raise Violation(
                            "C09", "creation-reordered-existing-keys",
                            {"path": path, "at": render(pos, "/"),
                             "was": was, "now": now})
                continue
            if post_nodes.get(pos) != val:
                raise Violation("C09", "creation-changed-existing-node",
                                {"path": path, "at": render(pos, "/"),
                                 "was": val, "now": post_nodes.get(pos)})
        if not self.cli and model.canon(after)[1:] != pre_anchors:
            raise Violation("C09", "creation-changed-anchors",
                            {"path": path})
        # (c) new positions lie on the created tail or are list padding
        first_new = base + tail[:1]
        for pos in post_nodes:
            if pos in pre_nodes:
                continue
            if pos[:len(first_new)] == first_new:
                continue
            if holder.kind == "l" and len(pos) > len(base) and \
                    pos[:len(base)] == base and pos[len(base)][0] == "i" \
                    and len(holder.items) <= pos[len(base)][1] < tail[0][1]:
                continue        # padding below the requested index
            raise Violation("C09", "creation-added-unrequested-node",
                            {"path": path, "at": render(pos, "/")})
        # (d) sequences are padded only up to the requested index
        cursor = base
        for seg in tail:
            parent = model.at(after, cursor)
            if seg[0] == "i":
                old = 0
                if model.exists(tree, cursor) and \
                        model.at(tree, cursor).kind == "l":
                    old = len(model.at(tree, cursor).items)
                if len(parent.items) != max(old, seg[1] + 1):
                    raise Violation("C09", "sequence-padded-beyond-index",
                                    {"path": path, "at": render(cursor, "/"),
                                     "length": len(parent.items),
                                     "want": max(old, seg[1] + 1)})
            cursor = cursor + (seg,)
        reload_check(self.doc, self.knobs, "C09", "create " + path)

    def do_reopen(self):
        prop = self.stats["last_mutator"]
        again = reload_check(self.doc, self.knobs, prop, "reopen")
        self.doc = again
        self.proc = Processor(self.newlog(), again)


# ----------------------------------------------------------------------
# history generation (adaptive: paths are drawn against the current state)
# ----------------------------------------------------------------------
WEIGHTS = {
    "C03": [("set", 60), ("delete", 10), ("create", 10), ("query", 8),
            ("reopen", 10), ("delete-root", 2), ("alias", 4)],
    "C04": [("delete", 55), ("set", 15), ("create", 8), ("query", 8),
            ("reopen", 10), ("delete-root", 4), ("alias", 4)],
    "C09": [("query", 45), ("create", 30), ("set", 8), ("delete", 7),
            ("reopen", 10), ("alias", 5)],
}


def gen_op(rng, tree, prop, flow=False):
    kinds = [k for k, w in WEIGHTS[prop] for _ in range(w)]
    kind = rng.choice(kinds)
    if kind == "set":
        path, form = gen_path(rng, tree, "scalar")
        value = rng.choice(NEW_VALUES)
        tname = snapshot.typed_scalar(value)[0]
        fmt = rng.choice(FORMATS[tname])
        if isinstance(value, str) and value[:1] == " " \
                and fmt in ("folded", "literal"):
            # ruamel 0.17.21 writes a wrong indentation indicator for a block
            # scalar whose first line starts with a blank (F23): its own dump
            # does not load
            fmt = "dquote"
        if flow and fmt in ("folded", "literal"):
            # a block scalar cannot live inside a flow collection; ruamel
            # then emits its internal fold markers (\a) into a quoted string
            fmt = "default"
        return {"op": "set", "path": path, "value": value,
                "format": fmt, "saveto": rng.random() < 0.15,
                "mustexist": rng.random() < 0.6, "form": form}
    if kind == "delete":
        path, form = gen_path(rng, tree, "any")
        return {"op": "delete", "path": path, "form": form,
                "route": rng.choice(["generator", "gathered"])}
    if kind == "delete-root":
        return {"op": "delete-root",
                "route": rng.choice(["generator", "gathered"])}
    if kind == "alias":
        scal = [(p, n) for p, n in model.walk(tree) if p and n.kind == "s"]
        if len(scal) < 2:
            return {"op": "reopen"}
        (tgt, _tn), (src, snode) = rng.sample(scal, 2)
        sep = rng.choice([".", "/"])
        anchor = None
        if snode.anchor is None and rng.random() < 0.6:
            anchor = rng.choice(["made1", "made2", "A9"])
            taken = sorted({n.anchor for _p, n in scal if n.anchor})
            if taken and rng.random() < 0.3:
                # a name the document already uses: the library must refuse
                # it wherever that anchor lives (S03o: only in sequences)
                anchor = rng.choice(taken)
        return {"op": "alias", "path": render(tgt, sep),
                "source": render(src, sep), "anchor": anchor,
                "form": "alias"}
    if kind == "query":
        roll = rng.random()
        if roll < 0.45:
            path, form = gen_collector(rng, tree)
            return {"op": "query", "path": path, "form": form,
                    "mode": rng.choice(["required", "required", "exists",
                                        "first"])}
        if roll < 0.65:
            posns = [p for p, _n in model.walk(tree) if p]
            if posns:
                pos = rng.choice(posns)
                return {"op": "query", "path": render(pos, "/"),
                        "segs": [list(s) for s in pos], "mode": "optional",
                        "value": rng.choice(["dflt", 7]),
                        "form": "optional-existing"}
        if rng.random() < 0.3:
            path, form = gen_keyword(rng, tree)
        else:
            path, form = gen_path(rng, tree, "any")
        return {"op": "query", "path": path, "form": form,
                "mode": rng.choice(["required", "exists", "first"])}
    if kind == "create":
        base, tail = gen_create(rng, tree)
        return {"op": "create", "base": [list(s) for s in base],
                "tail": [list(s) for s in tail],
                "value": rng.choice([9, "new v", True, 2.5, "zeta"]),
                "via": rng.choice(["set", "set", "get"]),
                "quote": rng.choice([None, None, '"', "'"]),
                "sep": rng.choice(["/", "."]), "form": "create"}
    return {"op": "reopen"}


def gen_session(rng, prop, tier):
    merges = rng.random() < 0.1
    gen = gen_docs.DocGen(
        rng, sets=rng.random() < 0.2, anchors=rng.random() < 0.65,
        nonascii=rng.random() < 0.1, mergekeys=merges, twins=0.18,
        special=rng.random() < 0.15, intkeys=rng.random() < 0.1,
        multiline=rng.random() < 0.2,
        max_nodes=rng.choice([4, 8, 14, 22, 30]),
        max_depth=rng.choice([2, 3, 4]))
    doc = gen.document()
    # (integer keys cannot survive the JSON that yaml-set writes for a
    # flow-style root, so such documents stay in block style)
    flow = rng.random() < 0.08 and not gen.sets and not merges \
        and not gen.intkeys
    text = gen_docs.to_yaml(doc, style="flow" if flow else "block",
                            start=rng.random() < 0.7)
    if not flow and rng.random() < 0.2:
        # keep-chomped block scalars with trailing blank lines (comments
        # are deliberately absent, see gen_docs.decorate)
        plain = text
        text = gen_docs.decorate(text, rng)
        try:
            if not strict_load(text)[1]:
                text = plain
        except CommentOverlap:
            text = plain
    steps = rng.choice([1, 2, 3, 4, 6, 8, 12])
    knobs = {"text_buf": rng.choice([1, 5, 32, 8192]),
             "write_through": rng.random() < 0.5}
    if rng.random() < 0.06:
        # the same session with debug logging on (--debug): what is logged
        # must not change what is done
        knobs["debug_log"] = True
    return {"document": text, "doc_model": doc, "knobs": knobs,
            "nsteps": steps, "history": [], "flow": flow,
            "cli": tier != "library-only" and rng.random() < 0.12}


def run_session(seed, prop, shard, idx, tier):
    """Generate and execute one session; returns (recipe, outcome)."""
    rng = random.Random("%d/%s/%d/%d" % (seed, prop, shard, idx))
    recipe = gen_session(rng, prop, tier)
    sess = Session(recipe["document"], recipe["knobs"],
                   cli=recipe.get("cli", False))
    viol = None
    if not sess.roundtrips:
        sess.stats["discarded"] = 1
        return recipe, sess, None
    for _ in range(recipe["nsteps"]):
        tree = model.build(sess.doc)
        if model.canon(tree) != snapshot.full(sess.doc):
            raise driver.HarnessError("model/snapshot disagree on build")
        oper = gen_op(rng, tree, prop, recipe.get("flow", False))
        recipe["history"].append(oper)
        if oper.get("form"):
            sess.stats["forms"].add((oper["op"], oper["form"]))
        try:
            sess.step(oper)
        except Violation as ex:
            viol = ex
            break
        except SessionAbort as ex:
            sess.stats["aborted"] = 1
            sess.stats["abort_reason"] = str(ex)[:60]
            break
    return recipe, sess, viol


def replay_session(recipe):
    """Re-execute a fixed history; returns the first Violation or None."""
    sess = Session(recipe["document"], recipe.get("knobs"),
                   cli=recipe.get("cli", False))
    if not sess.roundtrips:
        return None
    for oper in recipe["history"]:
        try:
            sess.step(oper)
        except Violation as ex:
            return ex
        except SessionAbort:
            return None
    return None


# ----------------------------------------------------------------------
# shrinking
# ----------------------------------------------------------------------
def same(viol, prop, cls):
    return viol is not None and viol.prop == prop and viol.cls == cls


def minimise(recipe, prop, cls):
    def fails(rcp):
        try:
            return same(replay_session(rcp), prop, cls)
        except Exception:  # pylint: disable=broad-except
            return False

    # truncate after the failing step, then drop earlier steps
    hist = list(recipe["history"])
    for cut in range(1, len(hist) + 1):
        if fails(dict(recipe, history=hist[:cut])):
            hist = hist[:cut]
            break
    changed = True
    while changed:
        changed = False
        for i in range(len(hist) - 2, -1, -1):
            cand = hist[:i] + hist[i + 1:]
            if fails(dict(recipe, history=cand)):
                hist = cand
                changed = True
    recipe = dict(recipe, history=hist)
    # shrink the document model subtree by subtree
    doc = recipe.get("doc_model")
    if doc is not None:
        def rebuilt(new_doc):
            try:
                text = gen_docs.to_yaml(new_doc)
            except Exception:  # pylint: disable=broad-except
                return None
            return dict(recipe, document=text, doc_model=new_doc)

        def shrink(node, setter):
            nonlocal recipe
            if node["t"] not in ("m", "l"):
                return
            i = len(node["i"]) - 1
            while i >= 0:
                if len(node["i"]) > 0:
                    saved = node["i"]
                    node["i"] = saved[:i] + saved[i + 1:]
                    cand = rebuilt(recipe["doc_model"])
                    if cand is not None and fails(cand):
                        recipe = cand
                    else:
                        node["i"] = saved
                i -= 1
            for item in node["i"]:
                child = item[1] if node["t"] == "m" else item
                shrink(child, None)
        import copy
        recipe["doc_model"] = copy.deepcopy(doc)
        shrink(recipe["doc_model"], None)
    if fails(dict(recipe, knobs={})):
        recipe = dict(recipe, knobs={})
    return recipe


# ----------------------------------------------------------------------
# known findings: matched by shape, never by seed
# ----------------------------------------------------------------------
def shape_of(prop, viol, recipe):
    last = recipe["history"][-1] if recipe["history"] else {}
    return {"property": prop, "class": viol.cls, "op": last.get("op"),
            "form": last.get("form")}


def known_match(shape, known):
    for entry in known:
        want = entry.get("shape", {})
        if all(shape.get(k) == v for k, v in want.items()):
            return entry
    return None


# ----------------------------------------------------------------------
def shard_main(payload):
    seed, prop, shard, lo, hi, tier = payload
    agg = {"sessions": 0, "steps": 0, "matched": 0, "skipped": 0,
           "forms": set(), "violations": [], "digests": [], "samples": [],
           "other_property": {}, "behaviours": set(), "discarded": 0,
           "aborted": 0, "abort_reasons": {}}
    for idx in range(lo, hi):
        recipe, sess, viol = run_session(seed, prop, shard, idx, tier)
        agg["sessions"] += 1
        agg["steps"] += sess.stats["steps"]
        agg["matched"] += sess.stats["matched"]
        agg["skipped"] += sess.stats["skipped"]
        agg["discarded"] += sess.stats.get("discarded", 0)
        agg["aborted"] += sess.stats.get("aborted", 0)
        if sess.stats.get("abort_reason"):
            why = sess.stats["abort_reason"]
            agg["abort_reasons"][why] = agg["abort_reasons"].get(why, 0) + 1
        agg["cli_sessions"] = agg.get("cli_sessions", 0) + \
            (1 if recipe.get("cli") else 0)
        agg["forms"] |= sess.stats["forms"]
        final = snapshot.full(sess.doc)
        digest = hashlib.sha256(repr((final, viol.cls if viol else None,
                                      recipe["history"])).encode()
                                ).hexdigest()
        agg["digests"].append((idx, digest))
        for oper in recipe["history"]:
            agg["behaviours"].add((oper["op"], oper.get("form"),
                                   oper.get("mode") or oper.get("route")
                                   or oper.get("via") or oper.get("format"),
                                   type(oper.get("value")).__name__))
        if viol is not None:
            if viol.prop == prop:
                agg["violations"].append(
                    {"class": viol.cls, "detail": viol.detail,
                     "recipe": recipe,
                     "origin": {"seed": seed, "shard": shard, "lo": lo,
                                "idx": idx, "tier": tier}})
            else:
                key = "%s:%s" % (viol.prop, viol.cls)
                agg["other_property"][key] = \
                    agg["other_property"].get(key, 0) + 1
        if idx % 301 == 0:
            agg["samples"].append({
                "document": recipe["document"][:400],
                "history": [{k: v for k, v in o.items()}
                            for o in recipe["history"]][:6],
                "violation": viol.cls if viol else None})
    return agg


def replay_prefix(prop, origin):
    """
    Re-execute, in this process, every session of the shard from its first
    index up to the failing one.  Needed when a violation depends on state a
    change under test keeps in the PROCESS (class-level caches, mutable
    default arguments): one session alone then does not reproduce it, the
    same sequence of sessions always does.
    """
    viol = None
    for idx in range(origin["lo"], origin["idx"] + 1):
        _recipe, _sess, viol = run_session(
            origin["seed"], prop, origin["shard"], idx, origin["tier"])
    return viol


def write_violation(prop, viol):
    recipe = minimise(viol["recipe"], prop, viol["class"])
    again = replay_session(recipe)
    reproduces_alone = same(again, prop, viol["class"])
    if reproduces_alone and viol.get("origin"):
        # this process has already executed other histories (regression
        # replays, minimisation): only a FRESH interpreter can tell whether
        # the minimised history fails on its own
        import subprocess
        import tempfile
        probe = {"property": prop, "violation_class": viol["class"],
                 "document": recipe["document"],
                 "history": recipe["history"],
                 "knobs": recipe.get("knobs", {}),
                 "cli": recipe.get("cli", False)}
        with tempfile.NamedTemporaryFile(
                "w", suffix=".json", delete=False, dir="/tmp") as fhnd:
            json.dump(probe, fhnd)
        try:
            proc = subprocess.run(
                [sys.executable, os.path.abspath(__file__), "--property",
                 prop, "--replay", fhnd.name],
                capture_output=True, text=True, timeout=300,
                env=dict(os.environ))
            reproduces_alone = proc.returncode == 1
        except subprocess.TimeoutExpired:
            reproduces_alone = False
        finally:
            os.unlink(fhnd.name)
    if not reproduces_alone and viol.get("origin"):
        payload = {
            "property": prop, "engine": "edit-session",
            "mode": "shard-prefix", "violation_class": viol["class"],
            "origin": viol["origin"],
            "note": "the failing session does not reproduce on its own: the "
                    "violation depends on state kept in the process by "
                    "earlier sessions; the replay re-runs the shard's "
                    "sessions lo..idx in one process",
            "document": viol["recipe"]["document"],
            "history": viol["recipe"]["history"],
            "detail": viol["detail"], "repo": driver.repo_state(),
        }
        return driver.write_replay(prop, payload), payload
    payload = {
        "property": prop, "engine": "edit-session",
        "violation_class": viol["class"],
        "document": recipe["document"], "history": recipe["history"],
        "knobs": recipe.get("knobs", {}), "cli": recipe.get("cli", False),
        "detail": again.detail if again is not None else viol["detail"],
        "repo": driver.repo_state(),
    }
    return driver.write_replay(prop, payload), payload


def replay(path, prop):
    with open(path, encoding="utf-8") as fhnd:
        payload = json.load(fhnd)
    if payload.get("mode") == "shard-prefix":
        viol = replay_prefix(payload["property"], payload["origin"])
    else:
        viol = replay_session(payload)
    ok = same(viol, payload["property"], payload["violation_class"])
    print("replay: %s %s %s" % (
        payload["property"], payload["violation_class"],
        "reproduced" if ok else "NOT reproduced (got %s)" % (
            viol.cls if viol else None)))
    if ok:
        print("detail: %s" % driver.short(viol.detail, 800))
        print("VIOLATION property=%s replay=%s" % (payload["property"], path))
        return 1
    return 0


RULES = {
    "C03": "one evaluation = one executed history step; sessions are seeded "
           "(document from a tiny colliding alphabet, 1-12 steps mixing set/"
           "create/delete/query/reopen, paths drawn against the current "
           "state in 12 forms); after every set the whole document (typed "
           "data, key order, anchors, alias groups) must equal the plain-data"
           " model, then dump through the simulated FS and strict reload",
    "C04": "one evaluation = one executed history step; delete steps use "
           "both the generator route and the gather-then-delete route; after"
           " every delete the document must equal the model with exactly the"
           " matched positions removed; root deletion must be refused",
    "C09": "one evaluation = one executed history step; query steps "
           "(required / exists / first-only / optional-on-existing, incl. "
           "collectors with + - &) must leave the full snapshot unchanged; "
           "create steps check resolve-to-value, frame, tail-only additions "
           "and padding length",
}


def main():
    parser = argparse.ArgumentParser()
    parser.add_argument("--property", required=True,
                        choices=["C03", "C04", "C09"])
    parser.add_argument("--tier", default=None)
    parser.add_argument("--replay")
    parser.add_argument("--sessions", type=int)
    parser.add_argument("--digest-only", action="store_true")
    parser.add_argument("--no-evidence", action="store_true")
    args = parser.parse_args()
    prop = args.property
    if args.replay:
        sys.exit(replay(args.replay, prop))
    tier = driver.tier_from(args.tier)
    seed = driver.seed_from_env()
    total = args.sessions or (24000 if tier == "quick" else 600000)
    nshards = 96 if tier == "quick" else 1024
    per = (total + nshards - 1) // nshards
    payloads = [(seed, prop, s, s * per, min(total, (s + 1) * per), tier)
                for s in range(nshards) if s * per < total]
    start = time.time()
    print("%s seed=%d tier=%s sessions=%d" % (prop, seed, tier, total))
    try:
        results = driver.run_shards(
            shard_main, payloads, cap_s=900 if tier == "quick" else 21600)
    except driver.HarnessError as ex:
        print("HARNESS-ERROR: %s" % ex)
        sys.exit(2)
    wall = time.time() - start
    agg = {"sessions": 0, "steps": 0, "matched": 0, "skipped": 0,
           "discarded": 0, "cli_sessions": 0, "aborted": 0}
    forms = set()
    behaviours = set()
    violations = []
    samples = []
    digests = []
    other = {}
    reasons = {}
    for res in results:
        for key in agg:
            agg[key] += res.get(key, 0)
        forms |= res["forms"]
        behaviours |= res["behaviours"]
        violations.extend(res["violations"])
        samples.extend(res["samples"])
        digests.extend(res["digests"])
        for key, num in res["other_property"].items():
            other[key] = other.get(key, 0) + num
        for key, num in res.get("abort_reasons", {}).items():
            reasons[key] = reasons.get(key, 0) + num
    if args.digest_only:
        text = "\n".join("%d %s" % d for d in sorted(digests))
        print("BATCH-DIGEST %s" % hashlib.sha256(text.encode()).hexdigest())
        sys.exit(0)
    def reproduces(path):
        with open(path, encoding="utf-8") as fhnd:
            payload = json.load(fhnd)
        if payload.get("mode") == "shard-prefix":
            return same(replay_prefix(payload["property"],
                                      payload["origin"]),
                        payload["property"], payload["violation_class"])
        return same(replay_session(payload), payload["property"],
                    payload["violation_class"])

    regressed = driver.run_regressions(prop, reproduces)
    known = driver.known_for(prop)
    reported = {}
    known_hits = {}
    hist = {}
    for viol in violations:
        last = viol["recipe"]["history"][-1]
        key = (viol["class"], last.get("op"), last.get("form"))
        hist[key] = hist.get(key, 0) + 1
    for viol in violations:
        shape = shape_of(prop, Violation(prop, viol["class"], None),
                         viol["recipe"])
        entry = known_match(shape, known)
        if entry is not None:
            known_hits[entry["id"]] = entry
            continue
        key = (viol["class"],)
        if key not in reported:
            reported[key] = viol
    for entry in known_hits.values():
        print("KNOWN-FINDING: property=%s %s" % (prop, entry["what"]))
    exit_code = 0
    replay_paths = []
    for path in regressed:
        print("VIOLATION property=%s replay=%s" % (prop, path))
        print("  a defect recorded as fixed in known_findings.json is back")
        replay_paths.append(path)
        exit_code = 1
    for viol in list(reported.values())[:6]:
        path, payload = write_violation(prop, viol)
        replay_paths.append(path)
        print("VIOLATION property=%s replay=%s" % (prop, path))
        print("  class=%s history=%s" % (
            viol["class"], driver.short(payload["history"], 300)))
        print("  document=%r" % payload["document"][:200])
        exit_code = 1
    print("sessions=%d steps=%d matched=%d skipped=%d wall=%.1fs "
          "steps/hour=%.0f" % (agg["sessions"], agg["steps"], agg["matched"],
                               agg["skipped"], wall,
                               agg["steps"] / max(wall, 1e-6) * 3600))
    for key, num in sorted(hist.items(), key=repr):
        print("  raw %5d  %s" % (num, key))
    if other:
        print("violations attributed to other properties (reported by their"
              " own checks): %s" % sorted(other.items()))
    if not args.no_evidence:
        coverage = {
            "evaluations": agg["steps"],
            "distinct_nontrivial": len(behaviours),
            "rule": RULES[prop] + ". distinct = distinct (operation, path "
                    "form, mode/route/format, value type) tuples executed",
            "samples": samples[:5],
            "sessions": agg["sessions"],
            "sessions_driven_through_the_real_yaml_set_main_on_SimFS":
                agg["cli_sessions"],
            "steps_whose_path_matched_and_were_judged": agg["matched"],
            "steps_skipped_out_of_domain_or_unmatched": agg["skipped"],
            "sessions_discarded_document_does_not_roundtrip_unedited":
                agg["discarded"],
            "sessions_cut_short_outside_the_checkable_domain_"
            "(ruamel_merge_source_delete,_unjudged_alias_step_failed)":
                agg["aborted"],
            "sessions_cut_short_by_reason": dict(sorted(reasons.items())),
            "path_forms_exercised": sorted("%s:%s" % f for f in forms),
            "steps_per_hour": round(agg["steps"] / max(wall, 1e-6) * 3600),
            "violations_of_other_properties_seen": other,
            "exhaustive": False,
            "components": {
                "real_code": ["yamlpath.Processor (get_nodes, exists, "
                              "set_value, delete_nodes, delete_gathered_"
                              "nodes)", "yamlpath Parsers strict loader",
                              "ruamel.yaml dump/load", "CPython io stack"],
                "stubbed": ["file system for persist/reopen (SimFS)"]},
            "repo": driver.repo_state(),
            "known_findings_matched": sorted(known_hits),
            "regression_replays_run": len(driver.regression_files(prop)),
            "regression_replays_reproduced": len(regressed),
            "replays": replay_paths,
        }
        driver.write_evidence(
            prop, tier, seed, "exploration", coverage,
            ["which nodes a path matches is taken from the real read path "
             "(get_nodes mustexist=True) and located through each result's "
             "parent container by identity; correctness of matching itself "
             "is C01/C02, not claimed here",
             "documents exclude merge keys and custom tags; new values are "
             "native-typed and passed with a format consistent with their "
             "type", "no scheduler nondeterminism exists in this engine; the"
             " fault dimension is limited to failed operations and short "
             "transfers through the simulated file system"],
            wall, len(reported) + len(regressed))
    sys.exit(exit_code)


if __name__ == "__main__":
    main()
