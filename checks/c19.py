#!/venv/bin/python
"""
C19 -- EYAML key rotation re-keys every secret once and touches nothing else.

The real ``eyaml_rotate_keys.main()`` runs in the simulated process world
against an in-process fake eyaml peer (keyed, randomised, reversible cipher
over the real command-line protocol) with seeded peer faults
(DESIGN.md section 3.6).

usage: c19.py [--tier quick|thorough] [--replay FILE] [--scenarios N]
"""
import argparse
import hashlib
import json
import os
import random
import sys
import time

sys.path.insert(0, os.path.dirname(os.path.dirname(os.path.abspath(__file__))))
from sim import driver  # noqa: E402

driver.bootstrap()

from sim import gen_args, gen_docs, peer_eyaml, snapshot  # noqa: E402
from sim.util import strict_load  # noqa: E402

PROP = "C19"


def clean(value):
    return str(value).replace("\n", "").replace(" ", "")


def load(text):
    """yamlpath's own strict loader on literal text."""
    return strict_load(text)


def gen_scenario(rng):
    faults = {}
    roll = rng.random()
    if roll < 0.3:
        for _ in range(rng.choice([1, 1, 2])):
            faults[str(rng.randrange(0, 8))] = rng.choice(
                ["fail", "empty", "echo"])
    recipe = gen_args.gen_rotate(rng, peer_faults=faults,
                                 backup=rng.random() < 0.5)
    if rng.random() < 0.08:
        # wrong old key: nothing decrypts
        recipe["files"][gen_args.W + "old_priv.pem"] = \
            peer_eyaml.key_file("PRIVATE", "someone-else")
        recipe["meta"]["wrongkey"] = True
    return recipe


def secret_positions(doc0):
    """
    Independent of the tool: positions of every value that, ignoring spaces
    and line breaks, begins with ENC[ -- grouped by node identity so an
    anchored secret and its aliases form one group.
    """
    groups = {}
    order = []
    for pos, _parent, _ref, node in snapshot.walk(doc0):
        if isinstance(node, str) and clean(node).startswith("ENC["):
            key = id(node) if snapshot.node_anchor(node) is not None \
                else ("pos", pos)
            if key not in groups:
                groups[key] = []
                order.append(key)
            groups[key].append(pos)
    return [groups[k] for k in order]


def masked(doc, positions):
    """Typed snapshot with the given positions blanked out."""
    hide = set(positions)

    def conv(node, pos):
        if pos in hide:
            return ("SECRET",)
        if isinstance(node, dict):
            # own keys only: what a YAML merge key brings in is the anchored
            # collection itself, seen (and masked) at its own position
            items = node.non_merged_items() \
                if hasattr(node, "non_merged_items") else node.items()
            return ("m", tuple(
                (snapshot.typed(k),
                 conv(v, pos + (("k", snapshot.typed(k)),)))
                for k, v in items))
        if isinstance(node, list):
            return ("l", tuple(conv(v, pos + (("i", i),))
                               for i, v in enumerate(node)))
        return snapshot.typed(node)
    return conv(doc, ())


def judge(recipe, res):
    """Violation classes for one finished run (empty = property held)."""
    out = []
    if res.exit != 0:
        return out, {}
    info = {"secrets": 0, "shared": 0, "files_unchanged": 0}
    fs0 = driver.initial_fs(recipe)
    expect_dec = []
    expect_enc = []
    marker_enc = []
    unjudged = False
    for target in recipe["meta"]["targets"]:
        text0 = fs0[target].decode("utf-8")
        doc0, ok0 = load(text0)
        if not ok0:
            continue
        groups = secret_positions(doc0)
        info["secrets"] += len(groups)
        text1 = res.fs.get(target, b"").decode("utf-8", "replace")
        wrote = any(kind == "open-w" and path == target
                    for (_k, kind, path, _n, _f) in res.trace)
        if not groups:
            # (v) a file holding no encrypted value is neither rewritten
            # nor backed up
            info["files_unchanged"] += 1
            if wrote or res.fs.get(target) != fs0[target]:
                out.append("v:secretless-file-rewritten")
            bak = target + ".bak"
            if res.fs.get(bak) != fs0.get(bak):
                out.append("v:secretless-file-backed-up")
            continue
        doc1, ok1 = load(text1)
        if not ok1:
            out.append("iii:rotated-file-does-not-reload")
            unjudged = True
            continue
        allpos = [p for g in groups for p in g]
        for group in groups:
            if len(group) > 1:
                info["shared"] += 1
            old_cipher = clean(snapshot.get_at(doc0, group[0]))
            plain = peer_eyaml.decrypt(old_cipher, "old")
            expect_dec.append(hashlib.sha256(
                old_cipher.encode()).hexdigest()[:12])
            if plain is None:
                # not a ciphertext of the old key: the tool cannot succeed
                out.append("i:exit-0-although-a-value-cannot-decrypt")
                continue
            expect_enc.append(hashlib.sha256(plain).hexdigest()[:12])
            nodes = []
            for pos in group:
                try:
                    nodes.append(snapshot.get_at(doc1, pos))
                except (KeyError, IndexError, TypeError):
                    out.append("iii:secret-position-vanished")
                    nodes = None
                    break
            if nodes is None:
                continue
            marker = clean(plain.decode("ascii", "replace")).startswith(
                "ENC[")
            if marker:
                marker_enc.append(expect_enc[-1])
            for node in nodes:
                new_cipher = clean(node) if isinstance(node, str) else ""
                if peer_eyaml.decrypt(new_cipher, "new") != plain:
                    out.append("i:not-decryptable-under-new-keys-to-old-"
                               "plaintext" + ("[plaintext-begins-with-"
                                              "marker]" if marker else ""))
                    break
                if peer_eyaml.decrypt(new_cipher, "old") is not None:
                    out.append("i:still-decrypts-under-old-keys")
                    break
            if len(group) > 1:
                if len({id(n) for n in nodes}) != 1:
                    out.append("ii:shared-secret-no-longer-shared")
        # (iii) everything else unchanged
        if masked(doc0, allpos) != masked(doc1, allpos):
            out.append("iii:non-secret-data-changed")
        anc0 = snapshot.anchors(doc0)
        anc1 = snapshot.anchors(doc1)
        if anc0 != anc1:
            out.append("iii:anchors-changed")
    # (ii)/(iv) the peer saw exactly the encrypted values, each once
    dec = [note.split(":")[2] for (_i, verb, note, code) in res.peer_log
           if verb == "decrypt" and note.startswith("dec:")]
    enc = [note.split(":")[2] for (_i, verb, note, code) in res.peer_log
           if verb == "encrypt" and note.startswith("enc:")]
    decfail = [note for (_i, verb, note, code) in res.peer_log
               if verb == "decrypt" and not note.startswith("dec:")]
    if unjudged:
        pass
    elif not decfail and not any(c.startswith("i:exit-0") for c in out):
        if sorted(dec) != sorted(expect_dec):
            if len(dec) > len(expect_dec):
                out.append("ii:value-decrypted-more-than-once-or-non-secret-"
                           "sent-to-decrypt")
            else:
                out.append("iv:encrypted-value-never-sent-to-decrypt")
        elif sorted(enc) != sorted(expect_enc):
            rest = list(expect_enc)
            for sha in enc:
                if sha in rest:
                    rest.remove(sha)
            only_marker = len(enc) < len(expect_enc) and \
                all(sha in marker_enc for sha in rest)
            out.append("ii:encrypt-calls-do-not-match-secrets" + (
                "[plaintext-begins-with-marker]" if only_marker else ""))
    elif decfail:
        out.append("i:exit-0-although-a-peer-call-failed")
    return sorted(set(out)), info


def behaviour(recipe, res, info):
    peer = recipe["peer"]
    kinds = tuple(sorted(set((peer.get("faults") or {}).values())))
    exitc = res.exit if res.exit in (0, "killed") else "nonzero"
    styles = set()
    for doc in (recipe.get("models") or {}).values():
        for segs, node in gen_docs.positions(doc):
            if node.get("secret") is not None:
                parent = "seq" if segs and segs[-1][0] == "i" else "map"
                styles.add((node["q"], bool(node.get("a")), parent))
            if node["t"] == "*":
                parent = "seq" if segs and segs[-1][0] == "i" else "map"
                styles.add(("alias", parent))
    return (len(recipe["meta"]["targets"]), recipe["meta"]["backup"], kinds,
            bool(recipe["meta"].get("wrongkey")), exitc,
            tuple(sorted(styles, key=repr)),
            len([e for e in res.peer_log]))


def run_scenario(seed, shard, idx):
    rng = random.Random("%d/%s/%d/%d" % (seed, PROP, shard, idx))
    recipe = gen_scenario(rng)
    res = driver.execute(recipe)
    classes, info = judge(recipe, res)
    return recipe, res, classes, info


def shard_main(payload):
    seed, shard, lo, hi, _tier = payload
    driver.warm_up()
    agg = {"runs": 0, "steps": 0, "violations": [], "behaviours": set(),
           "digests": [], "samples": [], "exit0": 0, "secrets": 0,
           "shared": 0, "peer_calls": 0, "peer_faults_fired": {},
           "secretless_files": 0}
    for idx in range(lo, hi):
        recipe, res, classes, info = run_scenario(seed, shard, idx)
        agg["runs"] += 1
        agg["steps"] += res.steps
        agg["peer_calls"] += len(res.peer_log)
        for flag in res.flags:
            if flag.startswith("peer-fault:"):
                agg["peer_faults_fired"][flag[11:]] = \
                    agg["peer_faults_fired"].get(flag[11:], 0) + 1
        if res.exit == 0:
            agg["exit0"] += 1
            agg["secrets"] += info.get("secrets", 0)
            agg["shared"] += info.get("shared", 0)
            agg["secretless_files"] += info.get("files_unchanged", 0)
        agg["behaviours"].add(behaviour(recipe, res, info))
        agg["digests"].append((idx, res.digest()))
        for cls in classes:
            agg["violations"].append({"class": cls, "recipe": recipe})
        if idx % 211 == 0:
            agg["samples"].append({
                "argv": recipe["argv"], "exit": res.exit,
                "files": {p: driver.short(t, 300)
                          for p, t in recipe["files"].items()
                          if "secrets" in p},
                "peer_faults": recipe["peer"]["faults"],
                "peer_log": [list(e) for e in res.peer_log][:8]})
    return agg


# ----------------------------------------------------------------------
def shape_of(viol):
    """Structural key of a violation (for known-findings matching)."""
    recipe = viol["recipe"]
    shape = {"class": viol["class"]}
    alias_in_seq = False
    for doc in (recipe.get("models") or {}).values():
        for segs, node in gen_docs.positions(doc):
            if node["t"] == "*" and segs and segs[-1][0] == "i":
                alias_in_seq = True
    shape["alias_in_sequence"] = alias_in_seq
    return shape


def known_match(viol, known):
    """
    Structural match: the violation class must be one the entry lists (the
    class carries the per-secret detail, e.g. [plaintext-begins-with-
    marker]) and any extra shape keys must agree.  Never by seed.
    """
    shape = shape_of(viol)
    for entry in known:
        if viol["class"] not in entry.get("classes", []):
            continue
        want = entry.get("shape", {})
        if all(shape.get(k) == v for k, v in want.items()):
            return entry
    return None


def minimise(viol):
    """Shrink: fewer files, no peer faults, fewer document entries."""
    cls = viol["class"]
    recipe = viol["recipe"]

    def still(rcp):
        try:
            res = driver.execute(rcp)
            return cls in judge(rcp, res)[0]
        except Exception:  # pylint: disable=broad-except
            return False

    def rebuild(rcp, models):
        files = dict(rcp["files"])
        targets = []
        for name in list(files):
            if "secrets" in name and not name.endswith(".bak"):
                del files[name]
        for name, doc in models.items():
            files[name] = gen_docs.to_yaml(doc)
            targets.append(name)
        argv = [a for a in rcp["argv"] if "secrets" not in a] + targets
        meta = dict(rcp["meta"], targets=targets)
        return dict(rcp, files=files, argv=argv, meta=meta, models=models)

    models = recipe.get("models")
    if models:
        # one file at a time
        for name in sorted(models):
            if len(models) > 1:
                cand_models = {k: v for k, v in models.items() if k != name}
                cand = rebuild(recipe, cand_models)
                if still(cand):
                    recipe, models = cand, cand_models
        if recipe["peer"]["faults"]:
            cand = dict(recipe, peer=dict(recipe["peer"], faults={}))
            if still(cand):
                recipe = cand
        # drop top-level entries of each document
        changed = True
        while changed:
            changed = False
            for name in sorted(models):
                doc = models[name]
                for i in range(len(doc["i"]) - 1, -1, -1):
                    if len(doc["i"]) <= 1:
                        break
                    cand_doc = dict(doc, i=doc["i"][:i] + doc["i"][i + 1:])
                    cand_models = dict(models)
                    cand_models[name] = cand_doc
                    cand = rebuild(recipe, cand_models)
                    if still(cand):
                        recipe, models, doc = cand, cand_models, cand_doc
                        changed = True
    cand = dict(recipe, knobs={})
    if still(cand):
        recipe = cand
    return dict(viol, recipe=recipe)


def write_violation(viol):
    viol = minimise(viol)
    res = driver.execute(viol["recipe"])
    payload = {
        "property": PROP, "engine": "tool-world",
        "violation_class": viol["class"],
        "recipe": {k: v for k, v in viol["recipe"].items()},
        "shape": shape_of(viol), "repo": driver.repo_state(),
        "expect": {"event_log_sha256": res.digest(), "exit": res.exit},
        "observed": {
            "stderr": driver.short(res.stderr, 600),
            "peer_log": [list(e) for e in res.peer_log],
            "files_after": {p: d.decode("utf-8", "replace")
                            for p, d in res.fs.items() if "secrets" in p}},
    }
    return driver.write_replay(PROP, payload), payload


def replay(path):
    with open(path, encoding="utf-8") as fhnd:
        payload = json.load(fhnd)
    res = driver.execute(payload["recipe"])
    classes, _ = judge(payload["recipe"], res)
    same = payload["violation_class"] in classes
    same_log = res.digest() == payload["expect"]["event_log_sha256"]
    print("replay: class %s %s; event log %s" % (
        payload["violation_class"], "reproduced" if same else
        "NOT reproduced", "identical" if same_log else "differs"))
    if same:
        print("VIOLATION property=%s replay=%s" % (PROP, path))
        return 1
    return 0


def main():
    parser = argparse.ArgumentParser()
    parser.add_argument("--tier", default=None)
    parser.add_argument("--replay")
    parser.add_argument("--scenarios", type=int)
    parser.add_argument("--digest-only", action="store_true")
    parser.add_argument("--no-evidence", action="store_true")
    args = parser.parse_args()
    if args.replay:
        sys.exit(replay(args.replay))
    tier = driver.tier_from(args.tier)
    seed = driver.seed_from_env()
    total = args.scenarios or (12000 if tier == "quick" else 1000000)
    nshards = 96 if tier == "quick" else 1024
    per = (total + nshards - 1) // nshards
    payloads = [(seed, s, s * per, min(total, (s + 1) * per), tier)
                for s in range(nshards) if s * per < total]
    start = time.time()
    print("C19 seed=%d tier=%s scenarios=%d" % (seed, tier, total))
    try:
        results = driver.run_shards(
            shard_main, payloads, cap_s=900 if tier == "quick" else 21600)
    except driver.HarnessError as ex:
        print("HARNESS-ERROR: %s" % ex)
        sys.exit(2)
    wall = time.time() - start
    agg = {"runs": 0, "steps": 0, "exit0": 0, "secrets": 0, "shared": 0,
           "peer_calls": 0, "secretless_files": 0}
    behaviours = set()
    violations = []
    samples = []
    digests = []
    fired = {}
    for res in results:
        for key in agg:
            agg[key] += res[key]
        behaviours |= res["behaviours"]
        violations.extend(res["violations"])
        samples.extend(res["samples"])
        digests.extend(res["digests"])
        for kind, num in res["peer_faults_fired"].items():
            fired[kind] = fired.get(kind, 0) + num
    if args.digest_only:
        text = "\n".join("%d %s" % d for d in sorted(digests))
        print("BATCH-DIGEST %s" % hashlib.sha256(text.encode()).hexdigest())
        sys.exit(0)
    def reproduces(path):
        with open(path, encoding="utf-8") as fhnd:
            payload = json.load(fhnd)
        res = driver.execute(payload["recipe"])
        return payload["violation_class"] in judge(payload["recipe"], res)[0]

    regressed = driver.run_regressions(PROP, reproduces)
    known = driver.known_for(PROP)
    reported = {}
    known_hits = {}
    for viol in violations:
        entry = known_match(viol, known)
        if entry is not None:
            known_hits[entry["id"]] = entry
            continue
        key = json.dumps(shape_of(viol), sort_keys=True)
        if key not in reported and len(reported) < 5:
            reported[key] = viol
    for entry in known_hits.values():
        print("KNOWN-FINDING: property=%s %s" % (PROP, entry["what"]))
    exit_code = 0
    replay_paths = []
    for path in regressed:
        print("VIOLATION property=%s replay=%s" % (PROP, path))
        print("  a defect recorded as fixed in known_findings.json is back")
        replay_paths.append(path)
        exit_code = 1
    for viol in reported.values():
        path, payload = write_violation(viol)
        replay_paths.append(path)
        print("VIOLATION property=%s replay=%s" % (PROP, path))
        print("  class=%s shape=%s" % (viol["class"], payload["shape"]))
        exit_code = 1
    print("runs=%d exit0=%d secrets-checked=%d shared=%d peer-calls=%d "
          "wall=%.1fs runs/hour=%.0f" % (
              agg["runs"], agg["exit0"], agg["secrets"], agg["shared"],
              agg["peer_calls"], wall, agg["runs"] / max(wall, 1e-6) * 3600))
    print("peer faults fired: %s; distinct behaviours: %d; raw violations: "
          "%d" % (sorted(fired.items()), len(behaviours), len(violations)))
    hist = {}
    for viol in violations:
        key = (viol["class"], shape_of(viol)["alias_in_sequence"])
        hist[key] = hist.get(key, 0) + 1
    for key, num in sorted(hist.items()):
        print("  raw %5d  %s alias_in_sequence=%s" % (num, key[0], key[1]))
    if not args.no_evidence:
        coverage = {
            "evaluations": agg["runs"],
            "distinct_nontrivial": len(behaviours),
            "rule": "one evaluation = one complete simulated run of the "
                    "real eyaml_rotate_keys.main() against the fake eyaml "
                    "peer; distinct = distinct (file count, backup?, peer "
                    "fault kinds, wrong-key?, exit class, set of (secret "
                    "style, anchored?, parent kind) and alias placements, "
                    "peer call count) tuples; trivial (no secret, no fault) "
                    "scenarios collapse into few tuples",
            "samples": samples[:5],
            "runs_exit_0_fully_checked": agg["exit0"],
            "secret_nodes_verified": agg["secrets"],
            "shared_anchor_groups_verified": agg["shared"],
            "secretless_files_verified_untouched": agg["secretless_files"],
            "peer_calls": agg["peer_calls"],
            "peer_faults_fired": fired,
            "simulated_io_steps": agg["steps"],
            "runs_per_hour": round(agg["runs"] / max(wall, 1e-6) * 3600),
            "exhaustive": False,
            "components": driver.REAL_AND_STUB,
            "repo": driver.repo_state(),
            "known_findings_matched": sorted(known_hits),
            "regression_replays_run": len(driver.regression_files(PROP)),
            "regression_replays_reproduced": len(regressed),
            "replays": replay_paths,
        }
        driver.write_evidence(
            PROP, tier, seed, "exploration", coverage,
            ["the fake eyaml implements the command-line protocol the tool "
             "builds (decrypt|encrypt --quiet --stdin [--output=] "
             "--pkcs7-*-key=); nothing is claimed about the real hiera-eyaml",
             "plaintexts are ASCII without leading/trailing whitespace (the "
             "pipe protocol strips it)",
             "which values are 'encrypted' is decided by this check's own "
             "walk of the loaded document, not by EYAMLProcessor"],
            wall, len(reported) + len(regressed))
    sys.exit(exit_code)


if __name__ == "__main__":
    main()
