#!/venv/bin/python
"""
C16 -- the command-line tools deliver the library's answers and honest exit
codes; file and standard-input delivery give the same outcome.

Every real ``main()`` (yaml-get, yaml-set, yaml-merge, yaml-diff,
yaml-validate, yaml-paths) runs in the simulated process world and is
compared with the library called directly on an independently loaded copy of
the same data; each scenario is also delivered through three channels (file,
explicit ``-``, implicit stdin under seeded chunking), through a tty with no
file (must refuse, never block), and -- in the fault configuration -- with one
read fault (DESIGN.md section 3.7).

usage: c16.py [--tier quick|thorough] [--replay FILE] [--scenarios N]
"""
import argparse
import copy
import hashlib
import json
import os
import random
import sys
import time
from types import SimpleNamespace

sys.path.insert(0, os.path.dirname(os.path.dirname(os.path.abspath(__file__))))
from sim import driver  # noqa: E402

driver.bootstrap()

from sim import gen_args, gen_docs, peer_eyaml, snapshot  # noqa: E402
from sim.gen_docs import S, M, L  # noqa: E402
from sim.util import QuietLog, strict_load, strict_load_all  # noqa: E402
from sim.world import READ_KINDS, fs_visible  # noqa: E402
from ruamel.yaml.comments import CommentedSet  # noqa: E402
from yamlpath import YAMLPath  # noqa: E402
from yamlpath.common import Parsers  # noqa: E402
from yamlpath.enums import PathSeparators, YAMLValueFormats  # noqa: E402
from yamlpath.exceptions import YAMLPathException  # noqa: E402
from yamlpath.eyaml import EYAMLProcessor  # noqa: E402
from yamlpath.wrappers import NodeCoords  # noqa: E402
from yamlpath.differ import Differ, DifferConfig  # noqa: E402
from yamlpath.differ.enums import DiffActions  # noqa: E402
from yamlpath.merger import Merger, MergerConfig  # noqa: E402
from yamlpath.merger.exceptions import MergeException  # noqa: E402
from yamlpath.merger.enums import OutputDocTypes  # noqa: E402

PROP = "C16"
W = gen_args.W
TOOLS = ["yaml-get", "yaml-set", "yaml-merge", "yaml-diff", "yaml-validate",
         "yaml-paths"]


# ----------------------------------------------------------------------
# small helpers
# ----------------------------------------------------------------------
def plain(node):
    """Plain JSON-like data of a live node (independent of jsonify)."""
    if isinstance(node, (CommentedSet, set, frozenset)):
        return {str(e): None for e in node}
    if isinstance(node, dict):
        return {plain_key(k): plain(v) for k, v in node.items()}
    if isinstance(node, (list, tuple)):
        return [plain(e) for e in node]
    tsc = snapshot.typed_scalar(node)
    if tsc[0] in ("str", "int", "float", "bool", "null"):
        return tsc[1]
    if tsc[0] == "date":
        return stamp_text(node) or tsc[1]
    if tsc[0] == "tagged":
        # JSON has no tags: the value underneath is what can be shown
        return plain(node.value)
    return repr(node)


def plain_key(key):
    if key is None:
        return "null"
    if isinstance(key, bool) or \
            type(key).__name__ == "ScalarBoolean":
        return "true" if key else "false"
    return str(key)


def orderless(snap):
    """typed snapshot with mapping key order removed (data equality)."""
    tag = snap[0]
    if tag == "m":
        return ("m", tuple(sorted(((k, orderless(v)) for k, v in snap[1]),
                                  key=repr)))
    if tag == "l":
        return ("l", tuple(orderless(e) for e in snap[1]))
    return snap


def ns(**kwargs):
    return SimpleNamespace(**kwargs)


def base_recipe(tool, argv, files, stdin="", tty=True, chunks=None,
                knobs=None):
    return {"tool": tool, "argv": argv, "files": files, "unreadable": [],
            "dirs": [], "stdin": stdin, "tty": tty, "stdin_chunks": chunks,
            "knobs": knobs or {}, "peer": None, "secrets_seed": 1,
            "meta": {"label": "c16", "targets": [], "backup": False,
                     "keep": []}}


def channel_variants(rng, tool, opts, doc_text, fname, files, knobs,
                     positional=True):
    """
    file / explicit '-' / implicit-stdin deliveries of one single-input
    scenario.  Returns {channel: recipe}.
    """
    chunks = [rng.choice([1, 2, 7, 64, 4096]) for _ in range(8)]
    out = {}
    fls = dict(files)
    fls[fname] = doc_text
    out["file"] = base_recipe(tool, opts + [fname], fls, knobs=knobs)
    out["dash"] = base_recipe(tool, opts + ["-"], dict(files),
                              stdin=doc_text, tty=False, chunks=chunks,
                              knobs=knobs)
    out["implicit"] = base_recipe(tool, list(opts), dict(files),
                                  stdin=doc_text, tty=False, chunks=chunks,
                                  knobs=knobs)
    out["tty-nofile"] = base_recipe(tool, list(opts), dict(files),
                                    stdin="", tty=True, knobs=knobs)
    return out


def doc_for(rng, **kw):
    opts = dict(sets=rng.random() < 0.15, anchors=rng.random() < 0.4,
                nonascii=rng.random() < 0.15, multiline=rng.random() < 0.15,
                special=rng.random() < 0.15,
                max_nodes=rng.choice([4, 8, 16]))
    opts.update(kw)
    return gd_document(rng, opts)


TIMESTAMPS = ["2001-12-14T21:59:43-03:30", "2002-01-05T08:15:00+05:30",
              "2003-07-01T00:00:01-09:30", "2004-02-29T23:59:59-05:00",
              "2005-06-15T12:00:00", "2006-03-04"]
_STAMPS = {}


def stamp_text(node):
    """
    The spelling the document gave a timestamp (the generator only uses ISO
    spellings, so that is also the expected rendering), found by instant.
    """
    import datetime as _dt
    if not _STAMPS:
        for raw in TIMESTAMPS:
            if "T" not in raw:
                _STAMPS[("date", raw)] = raw
                continue
            when = _dt.datetime.fromisoformat(raw)
            if when.tzinfo is not None:
                when = (when - when.utcoffset()).replace(tzinfo=None)
            _STAMPS[("time", when.isoformat())] = raw
    if isinstance(node, _dt.datetime):
        found = _STAMPS.get(("time", node.replace(tzinfo=None).isoformat()))
        if found is None and type(node).__name__ == "AnchoredDate":
            found = _STAMPS.get(("date", node.date().isoformat()))
        return found
    if isinstance(node, _dt.date):
        return _STAMPS.get(("date", node.isoformat()))
    return None


def gd_document(rng, opts):
    gen = gen_docs.DocGen(rng, **{k: v for k, v in opts.items()
                                  if not k.startswith("_")})
    doc = gen.document()
    if opts.get("_stamps") and rng.random() < 0.5:
        cands = [n for _s, n in gen_docs.positions(doc)
                 if n["t"] == "s" and not n.get("a")
                 and n.get("q") not in (">", "|")]
        rng.shuffle(cands)
        for node, raw in zip(cands[:rng.choice([1, 2, 3])],
                             rng.sample(TIMESTAMPS, 3)):
            node["raw"] = raw
            node["v"] = raw
            node["q"] = ""
    if rng.random() < 0.06:
        # a document larger than any pipe or reader buffer (8 KiB and up)
        pad = S("p" * rng.choice([5000, 9000, 70000]))
        if doc["t"] == "m":
            doc["i"].append([S("zzpad"), pad])
        else:
            doc["i"].append(pad)
    return doc


def render_doc(rng, doc, allow_json=True):
    roll = rng.random()
    has_special = _has_special(doc)
    if allow_json and not has_special and roll < 0.2:
        return gen_docs.to_json(doc, indent=rng.choice([None, 2])), ".json"
    if roll < 0.3 and not _has_set(doc):
        return gen_docs.to_yaml(doc, style="flow",
                                start=rng.random() < 0.5), ".yaml"
    return gen_docs.to_yaml(doc, start=rng.random() < 0.7,
                            trailing_newline=rng.random() < 0.9,
                            indent_all=rng.choice([0, 0, 0, 2])), \
        rng.choice([".yaml", ".yml"])


def _has_special(doc):
    return any(n["t"] in ("*", "S") or n.get("a") or n.get("raw") or
               n.get("q") in (">", "|")
               for _s, n in gen_docs.positions(doc))


def _has_set(doc):
    return any(n["t"] == "S" for _s, n in gen_docs.positions(doc))


def some_path(rng, doc):
    """A path drawn against the model: mostly matching, sometimes not."""
    posns = [(s, n) for s, n in gen_docs.positions(doc) if s]
    roll = rng.random()
    sep = rng.choice([".", "/"])
    if not posns or roll < 0.12:
        return rng.choice(["nosuchkey", "/no/such", "zz[9]", "a.b.c.d.e"]), \
            sep
    segs, _node = rng.choice(posns)
    if roll < 0.6:
        return gen_docs.render_path(segs, sep), sep
    parent = gen_docs.render_path(segs[:-1], sep)
    if roll < 0.8:
        tail = "*"
    elif roll < 0.9:
        tail = "**"
    else:
        tail = "[.!=nothing-equals-this]"
    if sep == "/":
        return (parent if parent != "/" else "") + "/" + tail, sep
    if tail.startswith("["):
        return parent + tail, sep
    return (parent + "." if parent else "") + tail, sep


# ----------------------------------------------------------------------
# yaml-get
# ----------------------------------------------------------------------
def gen_get(rng):
    if rng.random() < 0.12:
        sgen = gen_args.SecretDocGen(rng)
        doc = sgen.document(rng.choice([1, 2, 3]))
        text = gen_docs.to_yaml(doc)
        path, _sep = some_path(rng, doc)
        if rng.random() < 0.5:
            path = rng.choice(["**", "*", "/**"])
        return {"tool": "yaml-get", "opts": ["-p", path] + KEYOPTS,
                "doc": text, "fname": W + "doc.yaml", "files": {},
                "path": path, "pathsep": "auto", "eyaml": True}
    merges = rng.random() < 0.15
    doc = doc_for(rng, _stamps=rng.random() < (0.6 if merges else 0.25),
                  mergekeys=merges, rich_merge_sources=merges,
                  **({"anchors": True, "max_nodes": 16} if merges else {}))
    text, suffix = render_doc(rng, doc)
    path, sep = some_path(rng, doc)
    takers = [s for s, n in gen_docs.positions(doc)
              if s and n["t"] == "m" and n.get("merge")]
    if takers and rng.random() < 0.6:
        # the hash that merges another one in, or the container holding it:
        # what it inherits has to be printed like what it owns
        segs = rng.choice(takers)
        if len(segs) > 1 and rng.random() < 0.4:
            segs = segs[:-1]
        sep = rng.choice([".", "/"])
        path = gen_docs.render_path(segs, sep)
    opts = ["-p", path]
    if rng.random() < 0.3:
        opts += ["-t", "dot" if sep == "." else "fslash"]
    if rng.random() < 0.1:
        opts.append(rng.choice(["-q", "-v"]))
    return {"tool": "yaml-get", "opts": opts, "doc": text,
            "fname": W + "doc" + suffix, "files": {}, "path": path,
            "pathsep": "auto"}


def expect_get(scn):
    data, loaded = strict_load(scn["doc"])
    if not loaded:
        return {"exit": 1, "lines": None}
    proc = EYAMLProcessor(QuietLog(), data)
    try:
        if scn.get("eyaml"):
            # independent of the code under test: match on the ciphertext
            # document, decrypt with the stand-in cipher itself
            nodes = []
            for crd in proc.get_nodes(YAMLPath(scn["path"]), mustexist=True):
                node = NodeCoords.unwrap_node_coords(crd)
                if isinstance(node, str) and \
                        clean_enc(node).startswith("ENC["):
                    got = peer_eyaml.decrypt(clean_enc(node), "old")
                    if got is None:
                        return {"exit": 2, "lines": []}
                    node = got.decode("ascii")
                elif isinstance(node, list):
                    # the library decrypts the members of a matched list
                    # (recursively through nested lists), never a hash's
                    def members(seq):
                        out_ = []
                        for ele in seq:
                            if isinstance(ele, list):
                                out_.append(members(ele))
                            elif isinstance(ele, str) and \
                                    clean_enc(ele).startswith("ENC["):
                                dec = peer_eyaml.decrypt(clean_enc(ele),
                                                         "old")
                                out_.append(dec.decode("ascii")
                                            if dec is not None else ele)
                            else:
                                out_.append(ele)
                        return out_
                    node = members(node)
                nodes.append(node)
        else:
            nodes = [NodeCoords.unwrap_node_coords(n)
                     for n in proc.get_eyaml_values(
                         YAMLPath(scn["path"]), mustexist=True)]
    except YAMLPathException:
        return {"exit": 1, "lines": []}
    except Exception as ex:  # pylint: disable=broad-except
        # the library itself fails on this query (C15's business); the tool
        # must at least not claim success
        return {"exit": "library-raised", "error": type(ex).__name__}
    lines = []
    for node in nodes:
        if isinstance(node, (dict, list, CommentedSet)):
            lines.append(("json", plain(node)))
        elif node is None:
            lines.append(("text", "\x00"))
        elif stamp_text(node) is not None:
            lines.append(("text", stamp_text(node)))
        else:
            lines.append(("text", str(node).replace("\n", "\\n")))
    return {"exit": 0 if lines else 1, "lines": lines}


def judge_get(scn, exp, res, channel):
    out = []
    quiet = "-q" in scn["opts"]
    if exp["exit"] == "library-raised":
        if res.exit == 0:
            out.append("get:exit-0-although-library-raised-" + exp["error"])
        return out
    if res.exit != exp["exit"]:
        out.append("get:exit-status-%s-expected-%s" % (res.exit, exp["exit"]))
        return out
    if exp["exit"] != 0:
        if "-v" not in scn["opts"] and res.stdout.replace(
                "Please try --help for more information.\n", "").strip():
            out.append("get:output-on-failure")
        return out
    got = res.stdout.split("\n")
    if got and got[-1] == "":
        got.pop()
    if "-v" in scn["opts"]:
        return out      # verbose chatter is interleaved; skip line matching
    if len(got) != len(exp["lines"]):
        out.append("get:line-count-%d-expected-%d" % (len(got),
                                                     len(exp["lines"])))
        return out
    for line, (kind, want) in zip(got, exp["lines"]):
        if kind == "json":
            try:
                if json.loads(line) != want:
                    out.append("get:container-line-wrong-data")
            except ValueError:
                out.append("get:container-line-not-json")
        elif line != want:
            out.append("get:scalar-line-wrong")
    del quiet
    return out


# ----------------------------------------------------------------------
# yaml-validate
# ----------------------------------------------------------------------
def gen_validate(rng):
    nfiles = rng.choice([1, 1, 2, 3])
    files = {}
    names = []
    for idx in range(nfiles):
        ndocs = rng.choice([1, 1, 2, 3])
        parts = []
        for _ in range(ndocs):
            parts.append(gen_docs.to_yaml(doc_for(rng), start=True))
        text = "".join(parts)
        if rng.random() < 0.3:
            bad = gen_args.INVALID_DOCS[rng.choice(
                sorted(gen_args.INVALID_DOCS))]
            where = rng.choice(["only", "first", "last"])
            if where == "only":
                text = bad
            elif where == "first":
                text = bad + text
            else:
                text = text + bad
        if rng.random() < 0.08:
            # a stream ending in an empty document
            text += "---\n"
        name = W + "v%d.yaml" % idx
        files[name] = text
        names.append(name)
    if rng.random() < 0.08:
        # A file that declares YAML 1.1, then one whose validity depends on
        # the version in force (1.1: yes/true and 0o17/15 collide as keys;
        # 1.2: they do not): each file is judged by itself.
        order = [("%YAML 1.1\n---\nlegacy: yes\n", "v_legacy.yaml"),
                 (rng.choice(["yes: 1\ntrue: 2\n", "0o17: octal\n15: dec\n",
                              "on: 1\ntrue: 2\n"]), "v_plain.yaml")]
        if rng.random() < 0.3:
            order.reverse()
        for text, base in order:
            files[W + base] = text
            names.append(W + base)
    opts = []
    if rng.random() < 0.5:
        opts.append(rng.choice(["-v", "-q", "-d"]))
    if rng.random() < 0.1:
        names.append(W + "missing.yaml")
    return {"tool": "yaml-validate", "opts": opts, "names": names,
            "files": files}


def expect_validate_files(files, names, stdin_text=None):
    verdict = []
    for name in names:
        text = stdin_text if name == "-" else files.get(name)
        if text is None:
            verdict.append((name, 0, False))
            continue
        docs, okay = strict_load_all(text)
        if name == "-" and not docs and okay:
            docs = [""]
        verdict.append((name, len(docs), okay))
    exit_code = 0 if all(v[2] for v in verdict) else 2
    return exit_code, verdict


def judge_validate(scn, res, names, stdin_text, implicit_stdin):
    out = []
    exit_code, verdict = expect_validate_files(scn["files"], names,
                                               stdin_text)
    if implicit_stdin and exit_code == 0:
        code2, verdict2 = expect_validate_files({}, ["-"], stdin_text)
        exit_code = code2
        verdict = verdict + verdict2
    if (res.exit == 0) != (exit_code == 0):
        # the property speaks of "exits 0 exactly when every document
        # loads"; which non-zero value is used is not part of it
        out.append("validate:exit-status-%s-expected-%s" % (res.exit,
                                                            exit_code))
        return out
    if res.exit != exit_code:
        return out
    if "-q" in scn["opts"]:
        if res.stdout.strip():
            out.append("validate:quiet-printed-output")
        return out
    # Per-document verdict lines.  Only the FIRST invalid document's line is
    # demanded: the tool shares one parser between files and ruamel keeps
    # anchor state after a failed load, so later verdicts may legitimately
    # differ from a fresh-parser reference; the exit status cannot, because
    # it is already 2 by then.
    first_bad = next(((n, g) for n, g, okay in verdict if not okay), None)
    if first_bad is not None:
        shown = "STDIN" if first_bad[0] == "-" else first_bad[0]
        if "%s/%d is invalid due to:" % (shown, first_bad[1]) \
                not in res.stdout:
            out.append("validate:missing-verdict-line-for-invalid-document")
    elif "-v" in scn["opts"] or "-d" in scn["opts"]:
        for name, good, _okay in verdict:
            shown = "STDIN" if name == "-" else name
            for idx in range(good):
                if "%s/%d is valid." % (shown, idx) not in res.stdout:
                    out.append("validate:missing-valid-line")
                    break
    return out


# ----------------------------------------------------------------------
# yaml-diff
# ----------------------------------------------------------------------
def mutate_doc(rng, doc):
    """Apply 1-3 explicit edits that make the data unambiguously differ."""
    doc = copy.deepcopy(doc)
    table = gen_docs.anchors_of(doc)

    def resolve(node):
        return table[node["n"]] if node["t"] == "*" else node
    edits = []
    for _ in range(rng.choice([1, 1, 2, 3])):
        conts = [(s, n) for s, n in gen_docs.positions(doc)
                 if n["t"] in ("m", "l")]
        scal = [(s, n) for s, n in gen_docs.positions(doc)
                if s and n["t"] == "s" and not n.get("a")]
        roll = rng.random()
        if roll < 0.3 and scal:
            _s, node = rng.choice(scal)
            node["v"] = rng.choice(["CHANGED", 777])
            node["q"] = ""
            edits.append("change-scalar")
        elif roll < 0.45:
            _s, node = rng.choice(conts)
            if node["t"] == "m":
                node["i"].append([S("added-key"), S(1)])
                edits.append("add-key")
            else:
                node["i"].append(S("added-element"))
                edits.append("append-element")
        elif roll < 0.7:
            nonempty = [(s, n) for s, n in conts if n["i"]]
            if nonempty:
                _s, node = rng.choice(nonempty)
                node["i"].pop()
                edits.append("remove-last-%s%s" % (
                    "key" if node["t"] == "m" else "element",
                    "-leaving-empty" if not node["i"] else ""))
        elif roll < 0.85:
            inner = [(s, n) for s, n in conts if s]
            if inner:
                _s, node = rng.choice(inner)
                if node["t"] == "m":
                    node["t"] = "l"
                    edits.append("hash-becomes-empty-list")
                else:
                    node["t"] = "m"
                    edits.append("list-becomes-empty-hash")
                node["i"] = []
                node.pop("a", None)
        elif roll < 0.93:
            lists = [(s, n) for s, n in conts if n["t"] == "l" and n["i"]]
            if lists:
                _s, node = rng.choice(lists)
                node["i"] = []
                edits.append("list-emptied")
        else:
            lists = [(s, n) for s, n in conts
                     if n["t"] == "l" and len(n["i"]) > 1
                     and not any(x["t"] == "*" or x.get("a")
                                 for x in n["i"])]
            if lists:
                _s, node = rng.choice(lists)
                node["i"] = node["i"][1:] + node["i"][:1]
                edits.append("list-rotated")
    del resolve
    return doc, edits


TAG_BODIES = [
    "svc: %s\n  a: 1\n  b: [x, y]\nother: v\n",
    "items:\n  - %s {a: 1}\n  - plain\n",
    "--- %s\na: 1\nb: two\n",
    "svc: %s {a: 1, b: two}\nlast: [1, 2]\n",
    "deep:\n  list:\n    - - %s\n        k: v\n",
]


def tag_pair(rng):
    """
    Two documents that differ in nothing but the YAML tag of one mapping
    (S16aa): Python's == calls them equal, the Differ does not.
    """
    body = rng.choice(TAG_BODIES)
    one, two = rng.sample(["!one", "!two", "!x/y", ""], 2)
    if body.startswith("---") and "" in (one, two):
        one, two = "!one", "!two"
    return (body % one).replace(":  {", ": {").replace("-  {", "- {"), \
        (body % two).replace(":  {", ": {").replace("-  {", "- {")


def gen_diff(rng):
    lhs = doc_for(rng, sets=False, multiline=rng.random() < 0.4)
    if rng.random() < 0.4:
        rhs, edits = copy.deepcopy(lhs), ["identical"]
        # shuffle key order at the root: order is not data for hashes
        if rhs["t"] == "m" and rng.random() < 0.5 and \
                not any(n["t"] == "*" or n.get("a")
                        for _s, n in gen_docs.positions(rhs)):
            rng.shuffle(rhs["i"])
            edits = ["identical-reordered-keys"]
    else:
        rhs, edits = mutate_doc(rng, lhs)
    ltext, lsuf = render_doc(rng, lhs)
    rtext, rsuf = render_doc(rng, rhs)
    opts = []
    multi = None
    tagonly = rng.random() < 0.04
    if tagonly:
        ltext, rtext = tag_pair(rng)
        lsuf = rsuf = ".yaml"
        edits = ["tag-only"]
    if not tagonly and rng.random() < 0.12:
        # the compared documents sit inside multi-document files
        lpos = rng.randrange(3)
        rpos = rng.randrange(2)
        filler = "---\nfiller: %d\n"
        ltext = "".join(
            gen_docs.to_yaml(lhs, start=True) if i == lpos else filler % i
            for i in range(3))
        rtext = "".join(
            gen_docs.to_yaml(rhs, start=True) if i == rpos else filler % i
            for i in range(2))
        lsuf = rsuf = ".yaml"
        opts += ["-L", str(lpos), "-R", str(rpos)]
        multi = (lpos, rpos)
    roll = rng.random()
    if roll < 0.15:
        opts.append("-q")
    elif roll < 0.3:
        opts.append("-s")
    elif roll < 0.4:
        opts.append("-o")
    if rng.random() < 0.2:
        opts += ["-t", rng.choice(["dot", "fslash"])]
    files = {}
    roll = rng.random()
    if roll < 0.15:
        opts += ["-A", rng.choice(["position", "value"])]
    elif roll < 0.3:
        opts += ["-O", rng.choice(["deep", "dpos", "key", "position",
                                   "value"])]
    elif roll < 0.5:
        lines = ["[defaults]"]
        if rng.random() < 0.7:
            lines.append("arrays = " + rng.choice(["value", "position"]))
        if rng.random() < 0.6:
            lines.append("aoh = " + rng.choice(["deep", "dpos", "key",
                                                "value", "position"]))
        files[W + "diff.ini"] = "\n".join(lines) + "\n"
        opts += ["-c", W + "diff.ini"]
    return {"tool": "yaml-diff", "opts": opts, "lhs": ltext, "rhs": rtext,
            "lname": W + "lhs" + lsuf, "rname": W + "rhs" + rsuf,
            "edits": edits, "files": files, "multi": multi}


def expect_diff(scn):
    if scn.get("multi"):
        ldocs, lok = strict_load_all(scn["lhs"])
        rdocs, rok = strict_load_all(scn["rhs"])
        if not (lok and rok):
            return None
        ldoc = ldocs[scn["multi"][0]]
        rdoc = rdocs[scn["multi"][1]]
    else:
        ldoc, lok = strict_load(scn["lhs"])
        rdoc, rok = strict_load(scn["rhs"])
    if not (lok and rok):
        return None
    equal = orderless(snapshot.typed_merged(ldoc)) == \
        orderless(snapshot.typed_merged(rdoc))
    # 1, 1.0 and true compare equal in Python; a pair that differs only in
    # such a way is neither clearly "equal" nor clearly "different"
    ambiguous = (not equal) and plain(ldoc) == plain(rdoc)
    # so is a pair that differs only in the tag of a mapping: the Differ
    # reports it, plain data does not know it; tool == library is all that
    # is demanded of such a pair
    tag_only = "tag-only" in scn.get("edits", ())
    ambiguous = ambiguous or tag_only
    def opt(flag):
        return scn["opts"][scn["opts"].index(flag) + 1] \
            if flag in scn["opts"] else None
    args = ns(config=opt("-c"), arrays=opt("-A"), aoh=opt("-O"),
              same="-s" in scn["opts"],
              onlysame="-o" in scn["opts"], quiet="-q" in scn["opts"],
              verbose=False, debug=False, pathsep=PathSeparators.DOT,
              ignore_eyaml_values=True, eyaml="eyaml", publickey=None,
              privatekey=None)
    if "-t" in scn["opts"]:
        args.pathsep = PathSeparators.from_str(
            scn["opts"][scn["opts"].index("-t") + 1])
    log = QuietLog()
    try:
        with fs_visible(scn.get("files") or {}):
            diff = Differ(DifferConfig(log, args), log, ldoc,
                          ignore_eyaml_values=True)
            diff.compare_to(rdoc)
    except Exception as ex:  # pylint: disable=broad-except
        # the library itself fails on this pair under these modes (C06's
        # business); the tool must at least not claim "no difference"
        return {"library_raised": type(ex).__name__, "equal": equal}
    chunks = []
    changed = False
    for entry in diff.get_report():
        different = entry.action is not DiffActions.SAME
        changed = changed or different
        if args.quiet:
            continue
        if (different and not args.onlysame) or \
                (args.onlysame and not different) or args.same:
            entry.pathsep = args.pathsep
            entry.verbose = False
            chunks.append(str(entry))
    ini = (scn.get("files") or {}).get(opt("-c") or "", "")
    keyed = (opt("-O") in ("key", "deep") or "aoh = key" in ini
             or "aoh = deep" in ini)
    return {"equal": equal, "library_changed": changed,
            "default_modes": not (opt("-c") or opt("-A") or opt("-O")
                                  or ambiguous),
            # key/deep modes match Array-of-Hashes records by an identity
            # key; records lacking it are unmatchable BY DESIGN and are
            # reported as removed and re-added even in identical documents
            "identity_keyed": keyed, "tag_only": tag_only,
            "stdout": "".join(c + "\n" for c in "\n\n".join(chunks).split(
                "\n")) if chunks else ""}


def judge_diff(scn, exp, res):
    out = []
    if "library_raised" in exp:
        if res.exit == 0 and not exp["equal"]:
            out.append("diff:exit-0-although-library-raised-"
                       + exp["library_raised"])
        return out
    want = 0 if exp["equal"] else 1
    # plain data equality decides the status under the default comparison
    # modes; "value"/"key"/"deep" modes deliberately ignore some differences
    if exp["default_modes"] and res.exit != want:
        out.append("diff:exit-%s-but-documents-are-%s" % (
            res.exit, "data-equal" if exp["equal"] else "different"))
    if exp["equal"] and res.exit == 1 and not exp["identity_keyed"] \
            and not exp.get("tag_only") \
            and "diff:exit-1-but-documents-are-data-equal" not in out:
        out.append("diff:exit-1-but-documents-are-data-equal")
    lib = 1 if exp["library_changed"] else 0
    if res.exit != lib:
        out.append("diff:exit-status-disagrees-with-library-report")
    shown = "".join(line + "\n" for line in res.stdout.split("\n")[:-1]
                    if not line.startswith("WARNING:  "))
    if shown != exp["stdout"] and res.exit in (0, 1):
        out.append("diff:printed-entries-differ-from-library-report")
    return out


# ----------------------------------------------------------------------
# yaml-paths
# ----------------------------------------------------------------------
def gen_paths(rng):
    if rng.random() < 0.12:
        # --decrypt: search the plaintext of encrypted values; several
        # documents re-use anchor names for different secrets
        sgen = gen_args.SecretDocGen(rng)
        files = {}
        names = []
        for idx in range(rng.choice([1, 2])):
            parts = []
            for _ in range(rng.choice([1, 2, 2])):
                parts.append(gen_docs.to_yaml(
                    sgen.document(rng.choice([1, 2, 3])), start=True))
            name = W + "e%d.yaml" % idx
            files[name] = "".join(parts)
            names.append(name)
        exprs = [rng.choice(["=s3cret", "^pass", "%ecret", "=x", "=0",
                             "$1", "=true", "^a much", "=hunter2", "^two"])]
        opts = ["-e", "-s", exprs[0]] + KEYOPTS
        for flag, prob in (("-L", 0.3), ("-F", 0.3), ("-y", 0.3),
                           ("-l", 0.2)):
            if rng.random() < prob and not (flag == "-l" and "-y" in opts):
                opts.append(flag)
        return {"tool": "yaml-paths", "opts": opts, "names": names,
                "files": files, "exprs": exprs, "eyaml": True}
    if rng.random() < 0.12:
        # One document whose hashes inherit through YAML merge keys, searched
        # by key name under --anchorsonly: the printed paths are bare, so an
        # oracle that owes nothing to yaml-paths' own code can walk them
        # (judge_paths: only physically present keys may be named).
        doc = doc_for(rng, sets=False, mergekeys=True,
                      rich_merge_sources=True, anchors=True, max_nodes=16)
        keys = sorted({str(s[-1][1]) for s, _n in gen_docs.positions(doc)
                       if s and s[-1][0] == "k"
                       and isinstance(s[-1][1], str)
                       and s[-1][1].isalnum()}) or ["a"]
        # preferably a key well above a hash that inherits
        above = sorted({str(seg[1])
                        for s_, n_ in gen_docs.positions(doc)
                        if n_["t"] == "m" and n_.get("merge")
                        for seg in s_[:-1]
                        if seg[0] == "k" and isinstance(seg[1], str)
                        and seg[1].isalnum()})
        opts = ["-s", "=" + rng.choice(above if above and
                                       rng.random() < 0.7 else keys),
                "-F", "-A", rng.choice(["-K", "-k"])]
        if rng.random() < 0.75:
            opts.append("-m")
        if rng.random() < 0.5:
            opts += ["-t", rng.choice(["dot", "fslash"])]
        return {"tool": "yaml-paths", "opts": opts, "names": [W + "p0.yaml"],
                "files": {W + "p0.yaml": gen_docs.to_yaml(doc, start=True)},
                "exprs": [opts[1]], "bare_paths": True}
    nfiles = rng.choice([1, 1, 2])
    files = {}
    names = []
    for idx in range(nfiles):
        ndocs = rng.choice([1, 1, 2])
        text = "".join(gen_docs.to_yaml(doc_for(rng, sets=False),
                                        start=True)
                       for _ in range(ndocs))
        if rng.random() < 0.2:
            # degenerate documents inside the stream: nothing but "---",
            # an explicit null, a lone scalar
            extra = rng.choice(["---\n", "--- null\n", "--- just a scalar\n",
                                "--- 1\n"])
            text = extra + text if rng.random() < 0.6 else text + extra
        if rng.random() < 0.1:
            text += gen_args.INVALID_DOCS[rng.choice(
                sorted(gen_args.INVALID_DOCS))]
        name = W + "p%d.yaml" % idx
        files[name] = text
        names.append(name)
    exprs = []
    for _ in range(rng.choice([1, 1, 2])):
        exprs.append(rng.choice(["=1", "^a", "$y", "%x", "=~/^[abx]/", "=b",
                                 "!=a", ">0", "=x y", "=k1", "^k", "=true"]))
    opts = []
    for expr in exprs:
        opts += ["-s", expr]
    if rng.random() < 0.25:
        opts += ["-c", rng.choice(["=1", "^a", "=b"])]
    for flag, prob in (("-L", 0.4), ("-F", 0.3), ("-X", 0.2), ("-P", 0.1),
                       ("-n", 0.15), ("-m", 0.2), ("-a", 0.15)):
        if rng.random() < prob:
            opts.append(flag)
    roll = rng.random()
    if roll < 0.2:
        opts.append("-k")
    elif roll < 0.35:
        opts.append("-K")
    roll = rng.random()
    if roll < 0.1:
        opts.append("-A")
    elif roll < 0.2:
        opts.append("-y")
    elif roll < 0.3:
        opts.append("-l")
    if rng.random() < 0.3:
        opts += ["-t", rng.choice(["dot", "fslash"])]
    return {"tool": "yaml-paths", "opts": opts, "names": names,
            "files": files, "exprs": exprs}


def expect_paths(scn, names, files, stdin_text):
    """Re-derive the printed lines from search_for_paths (the library)."""
    from yamlpath.commands import yaml_paths as ypm
    from yamlpath.common import Anchors
    from yamlpath.enums import IncludeAliases
    opts = scn["opts"]
    pathsep = PathSeparators.DOT
    if "-t" in opts:
        pathsep = PathSeparators.from_str(opts[opts.index("-t") + 1])
    search_values, search_keys = True, False
    if "-K" in opts:
        search_values, search_keys = False, True
    elif "-k" in opts:
        search_keys = True
    inc_key, inc_val = True, False
    if "-A" in opts:
        inc_key, inc_val = False, False
    elif "-y" in opts:
        inc_key, inc_val = False, True
    elif "-l" in opts:
        inc_key, inc_val = True, True
    del IncludeAliases
    excepts = [opts[i + 1] for i, o in enumerate(opts) if o == "-c"]
    log = QuietLog()
    lines = []
    exit_code = 0
    for name in names:
        text = stdin_text if name == "-" else files.get(name)
        shown = "STDIN" if name == "-" else name
        if text is None:
            exit_code = 3
            continue
        docs, okay = strict_load_all(text)
        if name == "-" and okay and not docs:
            docs = [""]
        for index, data in enumerate(docs):
            shown_data = data
            if scn.get("eyaml"):
                data = decrypted_copy(data)
            proc = EYAMLProcessor(log, data)
            show_proc = EYAMLProcessor(log, shown_data)
            anchors = {}
            Anchors.scan_for_anchors(data, anchors)
            found = []
            for expr in scn["exprs"]:
                term = ypm.get_search_term(log, expr)
                if term is None:
                    exit_code = 1
                    continue
                for result in ypm.search_for_paths(
                        log, proc, data, term, pathsep,
                        search_values=search_values, search_keys=search_keys,
                        search_anchors="-a" in opts,
                        include_key_aliases=inc_key,
                        include_value_aliases=inc_val, decrypt_eyaml=False,
                        expand_children="-m" in opts, all_anchors=anchors):
                    if str(result) not in [str(e[1]) for e in found]:
                        found.append((expr, result))
            if found and excepts:
                for expr in excepts:
                    term = ypm.get_search_term(log, expr)
                    if term is None:
                        exit_code = 1
                        continue
                    for result in ypm.search_for_paths(
                            log, proc, data, term, pathsep,
                            search_values=search_values,
                            search_keys=search_keys,
                            search_anchors="-a" in opts,
                            include_key_aliases=inc_key,
                            include_value_aliases=inc_val,
                            decrypt_eyaml=False,
                            expand_children="-m" in opts,
                            all_anchors=anchors):
                        for entry in found:
                            if str(result) == str(entry[1]):
                                found.remove(entry)
                                break
            show_file = "-F" not in opts
            show_expr = len(scn["exprs"]) > 1 and "-X" not in opts
            show_path = "-P" not in opts
            show_val = "-L" in opts
            for expr, result in found:
                line = ""
                if show_file:
                    line += "%s/%d" % (shown, index)
                if show_expr:
                    line += "[%s]" % expr
                if show_file or (show_expr and (show_path or show_val)):
                    line += ": "
                if show_path:
                    if "-n" in opts:
                        fsl = pathsep is PathSeparators.FSLASH
                        segs = [str(seg) for _t, seg in result.escaped]
                        line += ("/" if fsl else "") + \
                            ("/" if fsl else ".").join(segs)
                    else:
                        line += str(result)
                if show_path and show_val:
                    line += ": "
                if show_val:
                    for crd in show_proc.get_nodes(result, mustexist=True):
                        node = crd.node
                        if isinstance(node, (dict, list, CommentedSet)):
                            line += json.dumps(plain(node))
                        else:
                            line += str(node).replace("\n", "\\n")
                        break
                lines.append(line)
        if not okay:
            exit_code = 3
    return exit_code, lines


def judge_paths(scn, res, names, files, stdin_text, implicit):
    out = []
    try:
        exit_code, lines = expect_paths(scn, names, files, stdin_text)
        if implicit and exit_code == 0:
            code2, lines2 = expect_paths(scn, ["-"], files, stdin_text)
            exit_code = code2
            lines += lines2
    except Exception as ex:  # pylint: disable=broad-except
        # the library itself failed: the tool must not claim success
        if res.exit == 0:
            out.append("paths:exit-0-although-library-raised-%s"
                       % type(ex).__name__)
        return out
    if res.exit != exit_code:
        out.append("paths:exit-status-%s-expected-%s" % (res.exit, exit_code))
        return out
    got = [ln for ln in res.stdout.split("\n")]
    if got and got[-1] == "":
        got.pop()
    got = [ln for ln in got
           if ln != "Please try --help for more information."]
    if got != lines:
        # An anchored boolean is a ScalarBoolean whose str() is "1"/"0" until
        # an earlier JSON rendering of a container happens to convert it in
        # place; both spellings are the same search result.
        def norm(seq):
            fixed = []
            for line in seq:
                for old, new in ((": True", ": 1"), (": False", ": 0")):
                    if line.endswith(old):
                        line = line[:-len(old)] + new
                if line in ("True", "False"):
                    line = "1" if line == "True" else "0"
                fixed.append(line)
            return fixed
        if norm(got) != norm(lines):
            out.append("paths:printed-lines-differ-from-search-results")
    if not out and scn.get("bare_paths") and res.exit == 0:
        out.extend(only_own_keys(scn, got, files, stdin_text, names))
    return out


def only_own_keys(scn, printed, files, stdin_text, names):
    """
    --anchorsonly: "discarding all aliased keys and values (including child
    nodes)".  A pair that a hash merely inherits through ``<<:`` is not
    physically there; no printed path may name one.  Walks each printed
    path over ``non_merged_items()`` -- no yaml-paths code involved.
    """
    text = stdin_text if not names or names[0] == "-" \
        else files.get(names[0])
    docs, okay = strict_load_all(text or "")
    if not okay or len(docs) != 1:
        return []
    for line in printed:
        try:
            segs = list(YAMLPath(line).escaped)
        except YAMLPathException:
            return ["paths:printed-something-that-is-not-a-yaml-path"]
        node = docs[0]
        for kind, ref in segs:
            if isinstance(node, dict):
                own = {str(k): v for k, v in (
                    node.non_merged_items()
                    if hasattr(node, "non_merged_items") else node.items())}
                if str(ref) not in own:
                    if str(ref) in {str(k) for k in node.keys()}:
                        return ["paths:inherited-key-printed-under-"
                                "anchorsonly"]
                    return []      # not a plain key segment: not judged
                node = own[str(ref)]
            elif isinstance(node, list):
                name = str(ref)
                if name.startswith("&"):
                    hits = [e for e in node
                            if getattr(getattr(e, "anchor", None), "value",
                                       None) == name[1:]]
                    if not hits:
                        return []
                    node = hits[0]
                else:
                    try:
                        node = node[int(name)]
                    except (ValueError, IndexError):
                        return []
            else:
                break
    return []


# ----------------------------------------------------------------------
# yaml-merge
# ----------------------------------------------------------------------
def gen_merge16(rng):
    root = rng.choice(["m", "m", "m", "l"])
    nfiles = rng.choice([2, 2, 3])
    docs = []
    use_anchors = rng.random() < 0.2
    for _ in range(nfiles):
        gen = gen_docs.DocGen(rng, sets=rng.random() < 0.1,
                              anchors=use_anchors,
                              special=rng.random() < 0.25,
                              nonascii=rng.random() < 0.15,
                              multiline=rng.random() < 0.4,
                              max_nodes=rng.choice([4, 8, 12]))
        docs.append(gen.document(root=root))
    ctl_json = False
    if rng.random() < 0.12:
        # characters that reach a document only through escapes (NEL, DEL):
        # YAML would treat a raw U+0085 as a line break
        node = S(rng.choice(["first\u0085second", "del\u007fete",
                             "bell\u0007"]))
        victim = rng.choice(docs)
        if victim["t"] == "m":
            victim["i"].append([S("ctl"), node])
        else:
            victim["i"].append(node)
        ctl_json = rng.random() < 0.6
    files = {}
    names = []
    for idx, doc in enumerate(docs):
        text, suffix = render_doc(rng, doc)
        name = W + "m%d%s" % (idx, suffix)
        files[name] = text
        names.append(name)
    opts = []
    if rng.random() < 0.4:
        opts += ["-A", rng.choice(["all", "left", "right", "unique"])]
    if rng.random() < 0.3:
        opts += ["-H", rng.choice(["deep", "left", "right"])]
    if rng.random() < 0.3:
        opts += ["-O", rng.choice(["all", "deep", "left", "right",
                                   "unique"])]
    if rng.random() < 0.25:
        opts += ["-M", rng.choice(["condense_all", "merge_across",
                                   "matrix_merge"])]
    if rng.random() < 0.35:
        opts += ["-D", rng.choice(["auto", "yaml", "json"])]
    if rng.random() < 0.15:
        opts += ["-J", rng.choice(["0", "2"])]
    if ctl_json:
        # default policies, JSON out: covered by the independent merge model
        opts = ["-D", "json"] + (["-J", "2"] if rng.random() < 0.3 else [])
    if use_anchors and not ctl_json:
        opts += ["-a", rng.choice(["stop", "left", "right", "rename"])]
    if rng.random() < 0.1 and not ctl_json:
        opts += ["-E", rng.choice(["left", "right", "unique"])]
    if root == "m" and rng.random() < 0.15 and not ctl_json:
        maps = [sg for sg, n in gen_docs.positions(docs[0])
                if n["t"] == "m" and sg]
        if maps:
            opts += ["-m", gen_docs.render_path(rng.choice(maps), "/")]
    if rng.random() < 0.25 and not ctl_json:
        lines = ["[defaults]"]
        for key, vals in (("arrays", ["all", "left", "right", "unique"]),
                          ("hashes", ["deep", "left", "right"]),
                          ("aoh", ["all", "deep", "left", "right",
                                   "unique"])):
            flag = {"arrays": "-A", "hashes": "-H", "aoh": "-O"}[key]
            if rng.random() < 0.6:
                lines.append("%s = %s" % (key, rng.choice(vals)))
                if rng.random() < 0.6 and flag in opts:
                    # leave the setting to the configuration file alone
                    idx = opts.index(flag)
                    del opts[idx:idx + 2]
        if rng.random() < 0.3:
            lines += ["[rules]", "/a = " + rng.choice(["left", "right"])]
        files[W + "merge.ini"] = "\n".join(lines) + "\n"
        opts += ["-c", W + "merge.ini"]
    outmode = rng.choice(["stdout", "stdout", "output", "overwrite"])
    scn = {"tool": "yaml-merge", "opts": opts, "names": names,
           "files": files, "outmode": outmode,
           "outname": W + rng.choice(["out.yaml", "out.json", "out.txt"])}
    if rng.random() < 0.2 and not ctl_json:
        # multi-document inputs merged document by document
        scn["opts"] = [o for i, o in enumerate(opts)
                       if o != "-M" and (i == 0 or opts[i - 1] != "-M")] \
            + ["-M", "merge_across"]
        files = {k: v for k, v in files.items() if k.endswith(".ini")}
        names = []
        for idx in range(2):
            parts = []
            for _ in range(rng.choice([2, 2, 3])):
                gen = gen_docs.DocGen(rng, sets=False, anchors=False,
                                      max_nodes=rng.choice([4, 8]))
                doc = gen.document(root=root)
                if rng.random() < 0.4:
                    parts.append("--- " + gen_docs.flow_text(doc) + "\n")
                else:
                    parts.append(gen_docs.to_yaml(doc, start=True))
            name = W + "mm%d.yaml" % idx
            files[name] = "".join(parts)
            if idx == 1 and len(parts) == 2 and rng.random() < 0.25:
                # the right-hand stream ends in an empty document (there is
                # a left-hand document for it, so nothing is appended)
                files[name] += "---\n"
            names.append(name)
        scn.update(files=files, names=names, multidoc=True)
    elif rng.random() < 0.15 and "-M" not in opts and not ctl_json:
        # default condense_all: every document of every input is folded into
        # the first document of the first input, which is itself a stream
        parts = [files[names[0]] if files[names[0]].startswith("---")
                 else "---\n" + files[names[0]]]
        if names[0].endswith(".json"):
            parts = ["--- " + files[names[0]]]
        for _ in range(rng.choice([1, 2])):
            gen = gen_docs.DocGen(rng, sets=False, anchors=False,
                                  max_nodes=rng.choice([4, 8]))
            clash = rng.random() < 0.35
            other = gen.document(root=("l" if root == "m" else "m")
                                 if clash else root)
            parts.append(gen_docs.to_yaml(other, start=True))
        new_name = W + "multi0.yaml"
        files = dict(files)
        del files[names[0]]
        files[new_name] = "".join(p if p.endswith("\n") else p + "\n"
                                  for p in parts)
        names = [new_name] + names[1:]
        scn.update(files=files, names=names, condense=True)
    return scn


class _Undefined(Exception):
    """The little merge model below does not cover this pair."""


def simple_merge(lhs, rhs):
    """
    Independent model of yaml-merge's DEFAULT policies on plain data: hashes
    merge deeply, arrays (of scalars or of hashes) are concatenated, a scalar
    on the right replaces a scalar on the left.  Anything else (type clashes,
    nulls against containers) is left to the library-differential oracle.
    """
    if isinstance(lhs, dict) and isinstance(rhs, dict):
        out = dict(lhs)
        for key, val in rhs.items():
            out[key] = simple_merge(lhs[key], val) if key in lhs else val
        return out
    if isinstance(lhs, list) and isinstance(rhs, list):
        return list(lhs) + list(rhs)
    if isinstance(lhs, (dict, list)) or isinstance(rhs, (dict, list)):
        raise _Undefined()
    if lhs is None or rhs is None:
        raise _Undefined()
    return rhs


def independent_merge(scn, texts):
    """Expected plain data under default options, or None if not covered."""
    opts = scn["opts"]
    if any(o in opts for o in ("-A", "-H", "-O", "-c", "-m", "-a", "-E",
                               "-M")) or scn.get("multidoc") \
            or scn.get("condense"):
        return None
    datas = []
    for text in texts:
        data, okay = strict_load(text)
        if not okay or not isinstance(data, (dict, list)):
            return None
        if snapshot.anchors(data) or _contains_set(data):
            return None
        datas.append(plain(data))
    try:
        merged = datas[0]
        for rhs in datas[1:]:
            merged = simple_merge(merged, rhs)
    except _Undefined:
        return None
    return merged


def _contains_set(node):
    if isinstance(node, CommentedSet):
        return True
    if isinstance(node, dict):
        return any(_contains_set(v) for v in node.values())
    if isinstance(node, list):
        return any(_contains_set(v) for v in node)
    return False


def merge_args(opts, output=None):
    def opt(flag):
        return opts[opts.index(flag) + 1] if flag in opts else None
    return ns(config=opt("-c"), anchors=opt("-a"), arrays=opt("-A"),
              sets=opt("-E"), hashes=opt("-H"), aoh=opt("-O"),
              mergeat=opt("-m") or "/",
              document_format=opt("-D") or "auto",
              multi_doc_mode=opt("-M") or "condense_all",
              preserve_lhs_comments=False, output=output, overwrite=None,
              json_indent=int(opt("-J") or -1), quiet=True, verbose=False,
              debug=False, nostdin=False, backup=False)


def expect_merge(scn, texts, output):
    """Fold the inputs with the library (single-document inputs)."""
    log = QuietLog()
    args = merge_args(scn["opts"], output)
    with fs_visible({k: v for k, v in scn["files"].items()
                     if k.endswith(".ini")}):
        config = MergerConfig(log, args)
    yaml = Parsers.get_yaml_editor()
    if scn.get("multidoc"):
        streams = []
        for text in texts:
            docs, okay = strict_load_all(text)
            if not okay:
                return {"exit": "nonzero"}
            streams.append(docs)
        mergers = [Merger(log, doc, config) for doc in streams[0]]
        try:
            for rhs_docs in streams[1:]:
                for idx, rhs in enumerate(rhs_docs):
                    if idx >= len(mergers):
                        mergers.append(Merger(log, rhs, config))
                    else:
                        mergers[idx].merge_with(rhs)
        except (MergeException, YAMLPathException):
            return {"exit": "nonzero"}
        kind = mergers[0].prepare_for_dump(yaml, output or "")
        for mrg in mergers:
            mrg.prepare_for_dump(yaml, output or "")
        return {"exit": 0, "json": kind is OutputDocTypes.JSON,
                "many": [mrg.data for mrg in mergers]}
    datas = []
    for text in texts:
        if scn.get("condense"):
            docs, okay = strict_load_all(text)
            if not okay or not docs:
                return {"exit": "nonzero"}
            datas.extend(docs)
            continue
        data, okay = strict_load(text)
        if not okay:
            return {"exit": "nonzero"}
        datas.append(data)
    merger = Merger(log, datas[0], config)
    try:
        for rhs in datas[1:]:
            merger.merge_with(rhs)
        if len(datas) == 1:
            pass
    except (MergeException, YAMLPathException):
        return {"exit": "nonzero"}
    kind = merger.prepare_for_dump(yaml, output or "")
    return {"exit": 0, "json": kind is OutputDocTypes.JSON,
            "data": merger.data}


def parse_output(text, as_json):
    if as_json:
        return json.loads(text)
    data, okay = strict_load(text)
    if not okay:
        raise ValueError("output does not load as YAML")
    return plain(data)


def judge_merge(scn, exp, res, out_text):
    out = []
    if exp["exit"] == "nonzero":
        if res.exit == 0:
            out.append("merge:exit-0-although-library-merge-failed")
        return out
    if res.exit != 0:
        out.append("merge:exit-%s-although-library-merge-succeeded"
                   % res.exit)
        return out
    if "many" in exp:
        # one document per merged pair, all in the format of the first
        try:
            if exp["json"]:
                got = []
                decoder = json.JSONDecoder()
                rest = out_text.strip()
                while rest:
                    value, end = decoder.raw_decode(rest)
                    got.append(value)
                    rest = rest[end:].lstrip()
            else:
                # a YAML stream, not one-JSON-document-per-line (which a
                # YAML loader would also accept)
                try:
                    decoder = json.JSONDecoder()
                    rest = out_text.strip()
                    count = 0
                    while rest:
                        _value, end = decoder.raw_decode(rest)
                        count += 1
                        rest = rest[end:].lstrip()
                    json_stream = count > 1
                except ValueError:
                    json_stream = False
                if json_stream:
                    raise ValueError("JSON lines where YAML was requested")
                docs, okay = strict_load_all(out_text)
                if not okay:
                    raise ValueError("does not load")
                got = [plain(d) for d in docs]
        except ValueError:
            out.append("merge:output-not-in-requested-format")
            return out
        want = [plain(d) for d in exp["many"]]
        if exp["json"]:
            want = json.loads(json.dumps(want))
        if got != want:
            out.append("merge:output-differs-from-library-merge")
        return out
    try:
        got = parse_output(out_text, exp["json"])
    except ValueError:
        out.append("merge:output-not-in-requested-format")
        return out
    want = plain(exp["data"])
    if exp["json"]:
        want = json.loads(json.dumps(want))
    if got != want:
        out.append("merge:output-differs-from-library-merge")
    return out


# ----------------------------------------------------------------------
# yaml-set
# ----------------------------------------------------------------------
def gen_set16(rng):
    doc = doc_for(rng, sets=False, multiline=False)
    text, suffix = render_doc(rng, doc)
    scalars = [(s, n) for s, n in gen_docs.positions(doc)
               if s and n["t"] == "s"]
    anyp = [s for s, _n in gen_docs.positions(doc) if s]
    sep = rng.choice([".", "/"])
    oper = rng.choice(["value", "value", "value", "delete", "null",
                       "create", "check-pass", "check-fail", "unmatched",
                       "format", "saveto", "aliasof", "aliasof-new", "tag",
                       "tag-only", "file-value", "stdin-value"])
    fmt = None
    value = rng.choice(["9", "new v", "2.5", "true", "zeta"])
    check = None
    saveto = None
    must = False
    if oper in ("value", "null", "format", "check-pass", "check-fail",
                "saveto", "aliasof", "aliasof-new", "tag", "tag-only",
                "file-value", "stdin-value") and not scalars:
        oper = "create"
    anchored = [(sg, n) for sg, n in scalars if n.get("a")]
    plain_sc = [(sg, n) for sg, n in scalars if not n.get("a")]
    if oper == "aliasof" and not (anchored and len(scalars) > 1):
        oper = "value"
    if oper == "aliasof-new" and len(plain_sc) < 2:
        oper = "value"
    aliasof = None
    newanchor = None
    tag = None
    extra_files = {}
    value_stdin = None
    maps_ = [sg for sg, n in gen_docs.positions(doc) if n["t"] == "m"]
    fresh = None
    if maps_ and rng.random() < 0.25:
        # a --change path that does not exist yet but could be created
        fresh = gen_docs.render_path(rng.choice(maps_) + (("k", "zz"),), sep)
    if oper in ("aliasof", "aliasof-new"):
        src_segs, _n = rng.choice(anchored if oper == "aliasof"
                                  else plain_sc)
        others = [sg for sg, _n in scalars if sg != src_segs]
        segs = rng.choice(others)
        path = fresh or gen_docs.render_path(segs, sep)
        aliasof = gen_docs.render_path(src_segs, sep)
        if oper == "aliasof-new" or rng.random() < 0.3:
            newanchor = rng.choice(["newanc", "N1", "&newanc", "new anc",
                                    "*N1 ", "& N1", "new,anc", "N[1]",
                                    "{N1}"])
    elif oper in ("tag", "tag-only"):
        segs, _n = rng.choice(scalars)
        path = fresh or gen_docs.render_path(segs, sep)
        tag = rng.choice(["mytag", "!t"])
    elif oper in ("file-value", "stdin-value"):
        segs, _n = rng.choice(scalars)
        path = gen_docs.render_path(segs, sep)
        value = rng.choice(["from a file", "two\nlines", "padded\n\n",
                            "41"])
        if oper == "file-value":
            extra_files[W + "value.txt"] = value
        else:
            value_stdin = value
    if oper in ("value", "null"):
        segs, _n = rng.choice(scalars)
        path = gen_docs.render_path(segs, sep)
        must = rng.random() < 0.3
    elif oper == "format":
        segs, _n = rng.choice(scalars)
        path = gen_docs.render_path(segs, sep)
        fmt, value = rng.choice([("int", "42"), ("float", "4.25"),
                                 ("boolean", "true"), ("dquote", "q d"),
                                 ("squote", "q s"), ("bare", "plain"),
                                 ("default", "7")])
    elif oper == "delete":
        path = gen_docs.render_path(rng.choice(anyp), sep)
    elif oper == "create":
        maps = [s for s, n in gen_docs.positions(doc) if n["t"] == "m"]
        base = rng.choice(maps) if maps else ()
        if doc["t"] == "l" and not maps:
            path = gen_docs.render_path((("i", len(doc["i"])),), sep)
        else:
            path = gen_docs.render_path(base + (("k", "zz"),), sep)
    elif oper in ("check-pass", "check-fail"):
        strs = [(s, n) for s, n in scalars
                if isinstance(n["v"], str) and n["v"]]
        if not strs:
            oper = "value"
            segs, _n = rng.choice(scalars)
            path = gen_docs.render_path(segs, sep)
        else:
            segs, node = rng.choice(strs)
            path = gen_docs.render_path(segs, sep)
            check = node["v"] if oper == "check-pass" else "not-the-value"
    elif oper == "saveto":
        segs, _n = rng.choice(scalars)
        path = gen_docs.render_path(segs, sep)
        saveto = rng.choice(["saved", "/old/value"])
    elif oper in ("aliasof", "aliasof-new", "tag", "tag-only",
                  "file-value", "stdin-value"):
        pass        # path and operands were chosen above
    else:
        path = rng.choice(["/no/such/node", "nosuch.key"])
        must = True
    if oper in ("value", "null", "format", "check-pass", "check-fail") \
            and rng.random() < 0.25:
        # the same change over every child of the node's parent: several
        # matches (--check has to hold for all of them, not for the last)
        up = gen_docs.render_path(segs[:-1], sep) if len(segs) > 1 else ""
        if sep == "/":
            path = (up if up != "/" else "") + "/*"
        else:
            path = up + ".*" if up else "*"
    opts = ["-g", path]
    if oper == "delete":
        opts.append("-D")
    elif oper == "null":
        opts.append("-N")
    elif oper in ("aliasof", "aliasof-new"):
        opts += ["-A", aliasof]
        if newanchor:
            opts += ["-H", newanchor]
    elif oper == "tag-only":
        opts += ["-T", tag]
    elif oper == "file-value":
        opts += ["-f", W + "value.txt"]
    elif oper == "stdin-value":
        opts.append("-i")
    else:
        opts += ["-a", value]
        if oper == "tag":
            opts += ["-T", tag]
    if fmt:
        opts += ["-F", fmt]
    if check is not None:
        opts += ["-c", check]
    if saveto:
        opts += ["-s", saveto]
    if must:
        opts.append("-m")
    return {"tool": "yaml-set", "opts": opts, "doc": text,
            "fname": W + "doc" + suffix, "files": extra_files, "oper": oper,
            "path": path, "value": value, "fmt": fmt, "check": check,
            "saveto": saveto, "must": must, "aliasof": aliasof,
            "newanchor": newanchor, "tag": tag, "value_stdin": value_stdin}


def clean_anchor(name):
    """--anchor as the tool understands it: the name without sigils and
    blanks (people paste "&name" or "*name ")."""
    if name is None:
        return None
    return name.replace(" ", "").replace("&", "").replace("*", "")


def expect_set(scn):
    """The same action applied through the library on a fresh load."""
    from yamlpath.common import Nodes
    data, loaded = strict_load(scn["doc"])
    if not loaded or data is None:
        return None
    proc = EYAMLProcessor(QuietLog(), data)
    path = YAMLPath(scn["path"])
    oper = scn["oper"]
    if any(ch in ",[]{}" for ch in clean_anchor(scn.get("newanchor")) or ""):
        # not a name YAML can express: to be refused with the arguments
        return {"exit": 1}
    must = scn["must"] or bool(scn["saveto"]) or oper == "delete"
    try:
        try:
            coords = list(proc.get_nodes(
                path, mustexist=True,
                default_value="" if oper not in ("null", "delete") else " "))
        except YAMLPathException:
            if must:
                raise
            coords = []
        if scn["check"] is not None:
            for crd in coords:
                if scn["check"] != crd.node:
                    return {"exit": 20}
        if scn["saveto"]:
            if len(coords) > 1:
                return {"exit": 1}
            old_format = YAMLValueFormats.from_node(coords[0].node)
            saved = Nodes.clone_node(coords[0].node)
            if hasattr(saved, "yaml_set_anchor"):
                saved.yaml_set_anchor(None)     # a copy of the *value*
            proc.set_value(YAMLPath(scn["saveto"]), saved,
                           value_format=old_format, tag=None)
        tag = scn.get("tag")
        if tag and not tag.startswith("!"):
            tag = "!" + tag
        if oper == "delete":
            proc.delete_gathered_nodes(coords)
        elif oper in ("aliasof", "aliasof-new"):
            proc.alias_gathered_nodes(coords, scn["aliasof"],
                                      anchor_name=clean_anchor(
                                          scn.get("newanchor")))
        elif oper == "tag-only":
            proc.tag_gathered_nodes(coords, tag)
        elif oper == "tag":
            proc.set_value(path, scn["value"], value_format="default",
                           mustexist=must, tag=tag)
        elif oper == "file-value":
            proc.set_value(path, scn["value"].rstrip(),
                           value_format="default", mustexist=must, tag=None)
        elif oper == "stdin-value":
            proc.set_value(path, scn["value"], value_format="default",
                           mustexist=must, tag=None)
        elif oper == "null":
            proc.set_value(path, None, value_format="default",
                           mustexist=must, tag=None)
        else:
            proc.set_value(path, scn["value"],
                           value_format=scn["fmt"] or "default",
                           mustexist=must, tag=None)
    except YAMLPathException:
        return {"exit": 1}
    return {"exit": 0, "data": data}


def _dump_reload(data):
    import io
    yaml = Parsers.get_yaml_editor()
    buf = io.StringIO()
    yaml.dump(data, buf)
    again, okay = strict_load(buf.getvalue())
    if not okay:
        raise ValueError("reference document does not reload")
    return again


def judge_set(scn, exp, res, out_text, original_text, channel):
    out = []
    if exp["exit"] != 0:
        if res.exit == 0:
            out.append("set:exit-0-although-library-refused-the-change")
        elif exp["exit"] == 20 and res.exit != 20:
            out.append("set:failed-check-exit-%s-expected-20" % res.exit)
        if channel == "file" and out_text != original_text:
            out.append("set:file-changed-on-failure")
        return out
    if res.exit != 0:
        out.append("set:exit-%s-although-library-applied-the-change"
                   % res.exit)
        return out
    flow_root = hasattr(exp["data"], "fa") and exp["data"].fa.flow_style()
    as_json = flow_root or (channel == "file"
                            and scn["fname"].endswith(".json"))
    try:
        if as_json:
            got = json.loads(out_text)
        else:
            data, okay = strict_load(out_text)
            if not okay:
                raise ValueError("result does not load")
            got = snapshot.typed_merged(data)
    except ValueError:
        out.append("set:result-does-not-reload")
        return out
    try:
        if as_json:
            want = json.loads(json.dumps(plain(exp["data"])))
        else:
            ref = _dump_reload(exp["data"])
            want = snapshot.typed_merged(ref)
            if scn["oper"] in ("aliasof", "aliasof-new") and \
                    snapshot.alias_groups(ref) != snapshot.alias_groups(data):
                out.append("set:alias-structure-differs-from-library-edit")
    except ValueError:
        # the library's own result cannot be serialised and reloaded: there
        # is no reference to compare with (C03's business, not the tool's)
        return out
    if got != want:
        out.append("set:result-differs-from-library-edit")
    return out


# ----------------------------------------------------------------------
# one scenario = all channels (+ fault configuration)
# ----------------------------------------------------------------------
GENS = {"yaml-get": gen_get, "yaml-validate": gen_validate,
        "yaml-diff": gen_diff, "yaml-paths": gen_paths,
        "yaml-merge": gen_merge16, "yaml-set": gen_set16}


def build_runs(rng, scn, knobs):
    """{channel: (recipe, context)} for one scenario."""
    tool = scn["tool"]
    chunks = [rng.choice([1, 2, 7, 64, 4096]) for _ in range(8)]
    runs = {}
    if tool in ("yaml-get", "yaml-set"):
        var = channel_variants(rng, tool, scn["opts"], scn["doc"],
                               scn["fname"], scn["files"], knobs)
        if scn.get("value_stdin") is not None:
            # standard input carries the new VALUE: the document must come
            # from the file, and the other deliveries must be refused
            rcp = var["file"]
            rcp["stdin"] = scn["value_stdin"]
            rcp["tty"] = False
            rcp["stdin_chunks"] = chunks
            runs["file"] = (rcp, {})
            runs["both-on-stdin"] = (var["dash"], {})
        else:
            for chan, rcp in var.items():
                runs[chan] = (rcp, {})
    elif tool == "yaml-diff":
        extra = dict(scn.get("files") or {})
        files = dict(extra)
        files.update({scn["lname"]: scn["lhs"], scn["rname"]: scn["rhs"]})
        runs["file"] = (base_recipe(tool, scn["opts"] + [scn["lname"],
                                                         scn["rname"]],
                                    files, knobs=knobs), {})
        runs["dash-lhs"] = (base_recipe(
            tool, scn["opts"] + ["-", scn["rname"]],
            dict(extra, **{scn["rname"]: scn["rhs"]}), stdin=scn["lhs"],
            tty=False, chunks=chunks, knobs=knobs), {})
        runs["dash-rhs"] = (base_recipe(
            tool, scn["opts"] + [scn["lname"], "-"],
            dict(extra, **{scn["lname"]: scn["lhs"]}), stdin=scn["rhs"],
            tty=False, chunks=chunks, knobs=knobs), {})
    elif tool in ("yaml-validate", "yaml-paths"):
        names = scn["names"]
        files = scn["files"]
        runs["file"] = (base_recipe(tool, scn["opts"] + names, files,
                                    knobs=knobs),
                        {"names": names, "stdin": None, "implicit": False})
        # move one existing file to stdin, explicitly and implicitly
        movable = [n for n in names if n in files]
        if movable:
            pick = rng.choice(movable)
            rest = {k: v for k, v in files.items() if k != pick}
            dnames = ["-" if n == pick else n for n in names]
            runs["dash"] = (base_recipe(tool, scn["opts"] + dnames, rest,
                                        stdin=files[pick], tty=False,
                                        chunks=chunks, knobs=knobs),
                            {"names": dnames, "stdin": files[pick],
                             "implicit": False})
            if names[-1] == pick:
                inames = names[:-1]
                runs["implicit"] = (base_recipe(
                    tool, scn["opts"] + inames, rest, stdin=files[pick],
                    tty=False, chunks=chunks, knobs=knobs),
                    {"names": inames, "stdin": files[pick],
                     "implicit": True})
        runs["tty-nofile"] = (base_recipe(tool, list(scn["opts"]), {},
                                          stdin="", tty=True, knobs=knobs),
                              {})
        # -S: a waiting (and broken) stdin document must be ignored
        runs["nostdin"] = (base_recipe(
            tool, ["-S"] + scn["opts"] + names, files,
            stdin="this: [is not, valid", tty=False, chunks=chunks,
            knobs=knobs),
            {"names": names, "stdin": None, "implicit": False})
        runs["nostdin-nofile"] = (base_recipe(
            tool, ["-S"] + list(scn["opts"]), {}, stdin="a: 1\n", tty=False,
            chunks=chunks, knobs=knobs), {})
    elif tool == "yaml-merge":
        names = scn["names"]
        files = scn["files"]
        extra = []
        output = None
        if scn["outmode"] == "output":
            extra = ["-o", scn["outname"]]
            output = scn["outname"]
        elif scn["outmode"] == "overwrite":
            extra = ["-w", scn["outname"]]
            output = scn["outname"]
        runs["file"] = (base_recipe(tool, scn["opts"] + extra + names,
                                    files, knobs=knobs),
                        {"output": output, "texts": [files[n]
                                                     for n in names]})
        pick = rng.randrange(len(names))
        rest = {k: v for k, v in files.items() if k != names[pick]}
        dnames = ["-" if i == pick else n for i, n in enumerate(names)]
        runs["dash"] = (base_recipe(tool, scn["opts"] + extra + dnames,
                                    rest, stdin=files[names[pick]],
                                    tty=False, chunks=chunks, knobs=knobs),
                        {"output": output, "texts": [files[n]
                                                     for n in names]})
        last = names[-1]
        rest = {k: v for k, v in files.items() if k != last}
        runs["implicit"] = (base_recipe(
            tool, scn["opts"] + extra + names[:-1], rest, stdin=files[last],
            tty=False, chunks=chunks, knobs=knobs),
            {"output": output, "texts": [files[n] for n in names]})
        runs["tty-nofile"] = (base_recipe(tool, list(scn["opts"]), {},
                                          stdin="", tty=True, knobs=knobs),
                              {})
    return runs


KEYFILES = {
    W + "old_pub.pem": peer_eyaml.key_file("PUBLIC", "old"),
    W + "old_priv.pem": peer_eyaml.key_file("PRIVATE", "old"),
}
KEYOPTS = ["-r", W + "old_priv.pem", "-u", W + "old_pub.pem"]


def clean_enc(value):
    return str(value).replace("\n", "").replace(" ", "")


def decrypted_copy(data):
    """The document with every ENC[...] value replaced by its plaintext."""
    import copy as _copy
    data = _copy.deepcopy(data)

    from ruamel.yaml.scalarstring import PlainScalarString
    memo = {}

    def plain_of(val):
        if isinstance(val, str) and clean_enc(val).startswith("ENC["):
            if id(val) in memo:
                return memo[id(val)]        # aliases stay one shared node
            got = peer_eyaml.decrypt(clean_enc(val), "old")
            if got is not None:
                name = snapshot.node_anchor(val)
                text = got.decode("ascii")
                rep = PlainScalarString(text, anchor=name) if name \
                    else PlainScalarString(text)
                memo[id(val)] = rep
                return rep
        return None

    seen = set()

    def walk(node):
        if id(node) in seen:
            return
        seen.add(id(node))
        if isinstance(node, dict):
            for key in list(node.keys()):
                rep = plain_of(node[key])
                if rep is not None:
                    node[key] = rep
                else:
                    walk(node[key])
        elif isinstance(node, list):
            for idx, val in enumerate(node):
                rep = plain_of(val)
                if rep is not None:
                    node[idx] = rep
                else:
                    walk(val)
    walk(data)
    return data


def judge_run(scn, chan, recipe, ctx, res, cache):
    """Violation classes of one channel's run."""
    tool = scn["tool"]
    out = []
    if "blocked-on-tty" in res.flags:
        out.append("%s:read-from-a-terminal-with-no-input" % tool[5:])
    if res.traceback and not res.exit:
        out.append("%s:traceback-with-exit-0" % tool[5:])
    if chan in ("tty-nofile", "nostdin-nofile"):
        if res.exit == 0:
            out.append("%s:no-input-but-exit-0" % tool[5:])
        return out
    if chan == "both-on-stdin":
        if res.exit == 0:
            out.append("set:document-and-value-both-from-stdin-but-exit-0")
        return out
    if tool == "yaml-get":
        if "get" not in cache:
            cache["get"] = expect_get(scn)
        out += judge_get(scn, cache["get"], res, chan)
    elif tool == "yaml-validate":
        out += judge_validate(scn, res, ctx["names"], ctx["stdin"],
                              ctx["implicit"])
    elif tool == "yaml-diff":
        if "diff" not in cache:
            cache["diff"] = expect_diff(scn)
        if cache["diff"] is not None:
            out += judge_diff(scn, cache["diff"], res)
    elif tool == "yaml-paths":
        out += judge_paths(scn, res, ctx["names"], recipe["files"],
                           ctx["stdin"], ctx["implicit"])
    elif tool == "yaml-merge":
        key = "merge"
        if key not in cache:
            try:
                cache[key] = expect_merge(scn, ctx["texts"], ctx["output"])
            except Exception as ex:  # pylint: disable=broad-except
                cache[key] = {"exit": "library-raised",
                              "error": type(ex).__name__}
        exp = cache[key]
        if ctx["output"]:
            text = res.fs.get(ctx["output"], b"").decode("utf-8", "replace")
        else:
            text = res.stdout
        # an oracle that shares no code with the Merger, for the default
        # policies on plain documents
        if "independent" not in cache:
            cache["independent"] = independent_merge(scn, ctx["texts"])
        model = cache["independent"]
        if model is not None:
            if res.exit != 0:
                out.append("merge:exit-%s-although-the-default-merge-is-"
                           "well-defined" % res.exit)
                return out
            try:
                try:
                    got = json.loads(text)
                except ValueError:
                    data, okay = strict_load(text)
                    if not okay:
                        raise ValueError("unloadable") from None
                    got = plain(data)
                if json.loads(json.dumps(got)) != \
                        json.loads(json.dumps(model)):
                    out.append("merge:output-differs-from-independent-"
                               "default-merge-model")
            except ValueError:
                out.append("merge:output-not-loadable")
            if out:
                return out
        if exp["exit"] == "library-raised":
            if res.exit == 0:
                out.append("merge:exit-0-although-library-raised-%s"
                           % exp["error"])
            return out
        out += judge_merge(scn, exp, res, text)
    elif tool == "yaml-set":
        if "set" not in cache:
            try:
                cache["set"] = expect_set(scn)
            except Exception as ex:  # pylint: disable=broad-except
                cache["set"] = {"exit": "library-raised",
                                "error": type(ex).__name__}
        exp = cache["set"]
        if exp is None:
            return out
        if exp["exit"] == "library-raised":
            if res.exit == 0:
                out.append("set:exit-0-although-library-raised-%s"
                           % exp["error"])
            return out
        if chan == "file":
            text = res.fs.get(scn["fname"], b"").decode("utf-8", "replace")
        else:
            text = res.stdout
        out += judge_set(scn, exp, res, text, scn["doc"], chan)
    return out


def normalise(tool, recipe, res, scn):
    """Channel-independent outcome (for the metamorphic comparison)."""
    text = res.stdout
    for name in list(recipe["files"]) + list(scn.get("files", {})) + \
            [scn.get("fname", ""), scn.get("lname", ""),
             scn.get("rname", "")]:
        if name:
            text = text.replace(name + "/", "STDIN/")
    return (res.exit, text)


def run_scenario(seed, shard, idx, tier):
    rng = random.Random("%d/%s/%d/%d" % (seed, PROP, shard, idx))
    tool = TOOLS[idx % len(TOOLS)]
    scn = GENS[tool](rng)
    knobs = {"bin_buf": rng.choice([1, 4, 64, 8192]),
             "text_buf": rng.choice([1, 16, 8192]),
             "write_through": rng.random() < 0.5}
    runs = build_runs(rng, scn, knobs)
    if scn.get("eyaml"):
        for recipe, _ctx in runs.values():
            recipe["peer"] = {"nonce_seed": 7, "block_width": 60,
                              "faults": {}, "installed": True}
            recipe["files"] = dict(recipe["files"], **KEYFILES)
    cache = {}
    stats = {"runs": 0, "steps": 0, "violations": [], "behaviours": set(),
             "fired": {}, "digest": hashlib.sha256(), "tool": tool,
             "ops": {}}
    results = {}
    for chan in sorted(runs):
        recipe, ctx = runs[chan]
        res = driver.execute(recipe)
        results[chan] = res
        stats["runs"] += 1
        stats["steps"] += res.steps
        stats["digest"].update(res.digest().encode())
        classes = judge_run(scn, chan, recipe, ctx, res, cache)
        exitc = res.exit if res.exit in (0, "killed") else "nonzero"
        if chan == "file":
            opname = "%s:%s%s:%s" % (
                tool, scn.get("oper") or scn.get("outmode") or
                ("eyaml" if scn.get("eyaml") else "plain"),
                ":config" if any(k.endswith(".ini")
                                 for k in recipe["files"]) else "",
                "exit0" if res.exit == 0 else "nonzero")
            stats["ops"][opname] = stats["ops"].get(opname, 0) + 1
        stats["behaviours"].add((tool, chan, exitc,
                                 scn.get("oper") or scn.get("outmode") or
                                 tuple(scn.get("edits", ()))[:2] or
                                 tuple(sorted(set(
                                     o for o in scn["opts"]
                                     if o.startswith("-"))))))
        for cls in classes:
            stats["violations"].append(
                {"class": cls, "scenario": scn, "channel": chan,
                 "recipe": recipe, "faults": []})
    # channel metamorphosis for single-document tools
    if tool in ("yaml-get",) and "file" in results:
        ref = normalise(tool, runs["file"][0], results["file"], scn)
        for chan in ("dash", "implicit"):
            if chan in results:
                got = normalise(tool, runs[chan][0], results[chan], scn)
                if got != ref and "-v" not in scn["opts"] \
                        and "-q" not in scn["opts"]:
                    stats["violations"].append(
                        {"class": "get:stdin-delivery-changes-the-outcome",
                         "scenario": scn, "channel": chan,
                         "recipe": runs[chan][0], "faults": []})
    if tool == "yaml-diff" and "file" in results:
        ref = (results["file"].exit, results["file"].stdout)
        for chan in ("dash-lhs", "dash-rhs"):
            got = (results[chan].exit, results[chan].stdout)
            if got != ref:
                stats["violations"].append(
                    {"class": "diff:stdin-delivery-changes-the-outcome",
                     "scenario": scn, "channel": chan,
                     "recipe": runs[chan][0], "faults": []})
    # fault configuration: one read fault on an input
    fault_runs = 2 if tier == "quick" else 6
    for chan in ("file", "dash"):
        if chan not in runs:
            continue
        recipe, ctx = runs[chan]
        base = results[chan]
        # faults on the documents being delivered; an unreadable INI file
        # is silently ignored by configparser.read() by design
        reads = [ev for ev in base.trace
                 if (ev[1] in READ_KINDS or ev[1] == "open-r")
                 and not ev[2].endswith(".ini")]
        if not reads:
            continue
        for _ in range(fault_runs):
            ev = rng.choice(reads)
            kind = rng.choice(["oserror", "short", "short"]) \
                if ev[1] != "open-r" else "oserror"
            plan = {"kind": kind, "step": ev[0],
                    "arg": "EIO" if kind == "oserror"
                    else rng.choice([0.0, 0.5])}
            res = driver.execute(recipe, [plan])
            stats["runs"] += 1
            stats["steps"] += res.steps
            stats["digest"].update(res.digest().encode())
            if not res.fired:
                continue
            stats["fired"][kind] = stats["fired"].get(kind, 0) + 1
            same = (res.exit, res.stdout, res.fs) == \
                (base.exit, base.stdout, base.fs)
            cls = None
            if kind == "short" and not same:
                cls = "%s:short-read-changes-the-outcome" % tool[5:]
            elif kind == "oserror" and res.exit == 0 and not same:
                cls = "%s:read-error-but-exit-0-with-wrong-answer" % tool[5:]
            if cls:
                stats["violations"].append(
                    {"class": cls, "scenario": scn, "channel": chan,
                     "recipe": recipe, "faults": [plan]})
    # SIGINT while the tool runs (every sixth scenario): the run may end
    # non-zero, or finish with the very same answer -- never "succeed" with
    # another one (a load aborted by Ctrl-C must not be taken for a document)
    if (idx // len(TOOLS)) % 6 == 0 and "file" in runs:
        recipe, ctx = runs["file"]
        base = driver.execute(recipe, count_lines=True)
        stats["runs"] += 1
        for num in range(3 if tier == "quick" else 9):
            if base.lines <= 0:
                break
            line = driver.sample_load_phase_line(rng, base) \
                if num % 3 else None
            plan = {"kind": "interrupt",
                    "step": line if line is not None
                    else rng.randrange(base.lines), "arg": None}
            res = driver.execute(recipe, [plan])
            stats["runs"] += 1
            stats["steps"] += res.steps
            stats["digest"].update(res.digest().encode())
            if not res.fired:
                continue
            stats["fired"]["interrupt"] = \
                stats["fired"].get("interrupt", 0) + 1
            same = (res.exit, res.stdout, res.fs) == \
                (base.exit, base.stdout, base.fs)
            # A run that claims success must still satisfy the ordinary
            # differential oracle.  (Byte equality with the undisturbed run
            # would demand too much: ruamel's serializer has a bare
            # "except:" that swallows a KeyboardInterrupt and merely drops an
            # unreferenced anchor -- the data is the same.)
            if res.exit == 0 and not same and base.exit == 0 and \
                    judge_run(scn, "file", recipe, ctx, res, dict(cache)):
                stats["violations"].append(
                    {"class": "%s:interrupted-but-exit-0-with-wrong-answer"
                              % tool[5:], "scenario": scn, "channel": "file",
                     "recipe": recipe, "faults": [plan]})
            elif res.exit == 0 and not same and base.exit != 0:
                stats["violations"].append(
                    {"class": "%s:interrupted-but-exit-0-with-wrong-answer"
                              % tool[5:], "scenario": scn, "channel": "file",
                     "recipe": recipe, "faults": [plan]})
    stats["digest"] = stats["digest"].hexdigest()
    stats["sample"] = None
    if idx % 173 == 0:
        rcp = runs["file"][0] if "file" in runs else list(runs.values())[0][0]
        stats["sample"] = {
            "tool": tool, "argv": rcp["argv"],
            "files": {p: driver.short(t, 200)
                      for p, t in rcp["files"].items()},
            "exit": results.get("file", list(results.values())[0]).exit,
            "stdout": driver.short(results.get(
                "file", list(results.values())[0]).stdout, 200),
            "channels": sorted(runs)}
    return stats


def shard_main(payload):
    seed, shard, lo, hi, tier = payload
    driver.warm_up()
    agg = {"runs": 0, "steps": 0, "scenarios": 0, "violations": [],
           "behaviours": set(), "fired": {}, "digests": [], "samples": [],
           "per_tool": {}, "ops": {}}
    for idx in range(lo, hi):
        st = run_scenario(seed, shard, idx, tier)
        agg["scenarios"] += 1
        agg["runs"] += st["runs"]
        agg["steps"] += st["steps"]
        agg["violations"].extend(st["violations"][:4])
        agg["behaviours"] |= st["behaviours"]
        for kind, num in st["fired"].items():
            agg["fired"][kind] = agg["fired"].get(kind, 0) + num
        agg["digests"].append((idx, st["digest"]))
        for name, num in st["ops"].items():
            agg["ops"][name] = agg["ops"].get(name, 0) + num
        agg["per_tool"][st["tool"]] = agg["per_tool"].get(st["tool"], 0) \
            + st["runs"]
        if st["sample"]:
            agg["samples"].append(st["sample"])
    return agg


# ----------------------------------------------------------------------
# replay / minimise / known findings
# ----------------------------------------------------------------------
def rejudge(viol):
    """Re-run one recorded violation; True if the class reproduces."""
    scn = viol["scenario"]
    recipe = viol["recipe"]
    chan = viol["channel"]
    cls = viol["class"]
    if viol["faults"]:
        base = driver.execute(recipe)
        res = driver.execute(recipe, viol["faults"])
        same = (res.exit, res.stdout, res.fs) == (base.exit, base.stdout,
                                                  base.fs)
        if "short-read" in cls:
            return bool(res.fired) and not same, res
        if "interrupted" in cls:
            if not (bool(res.fired) and res.exit == 0 and not same):
                return False, res
            if base.exit != 0:
                return True, res
            rng = random.Random(0)
            runs = build_runs(rng, scn, recipe.get("knobs") or {})
            ctx = runs["file"][1] if "file" in runs else {}
            return bool(judge_run(scn, "file", recipe, ctx, res, {})), res
        return bool(res.fired) and res.exit == 0 and not same, res
    res = driver.execute(recipe)
    if "stdin-delivery-changes" in cls:
        # compare against the file channel rebuilt from the scenario
        rng = random.Random(0)
        runs = build_runs(rng, scn, recipe.get("knobs") or {})
        ref = driver.execute(runs["file"][0])
        if scn["tool"] == "yaml-diff":
            return (res.exit, res.stdout) != (ref.exit, ref.stdout), res
        return normalise(scn["tool"], recipe, res, scn) != \
            normalise(scn["tool"], runs["file"][0], ref, scn), res
    ctx = viol.get("ctx")
    if ctx is None:
        rng = random.Random(0)
        runs = build_runs(rng, scn, recipe.get("knobs") or {})
        ctx = runs[chan][1] if chan in runs else {}
        if scn["tool"] in ("yaml-validate", "yaml-paths", "yaml-merge"):
            # contexts that depend on which file moved to stdin are
            # reconstructed from the recorded recipe itself
            names = [a for a in recipe["argv"]
                     if a == "-" or a.startswith(W)]
            if scn["tool"] == "yaml-merge":
                names = [n for n in names if n != ctx.get("output")]
            ctx = dict(ctx, names=names,
                       stdin=recipe["stdin"] if not recipe["tty"] else None,
                       implicit=(not recipe["tty"] and "-" not in names
                                 and chan == "implicit"))
    return cls in judge_run(scn, chan, recipe, ctx, res, {}), res


def shape_of(viol):
    scn = viol["scenario"]
    shape = {"class": viol["class"], "tool": scn["tool"]}
    if scn["tool"] == "yaml-diff":
        shape["edits"] = sorted(set(scn.get("edits", [])))
    return shape


def known_match(viol, known):
    for entry in known:
        if viol["class"] not in entry.get("classes", []):
            continue
        cond = entry.get("when")
        if cond and not eval_condition(cond, viol):
            continue
        return entry
    return None


def eval_condition(cond, viol):
    scn = viol["scenario"]
    if cond == "diff-null-element":
        return "null" in scn.get("lhs", "") or "null" in scn.get("rhs", "")
    return False


def write_violation(viol):
    ok, res = rejudge(viol)
    payload = {
        "property": PROP, "engine": "tool-world",
        "violation_class": viol["class"], "channel": viol["channel"],
        "scenario": viol["scenario"], "recipe": viol["recipe"],
        "faults": viol["faults"], "repo": driver.repo_state(),
        "reproduced_when_written": ok,
        "expect": {"event_log_sha256": res.digest(), "exit": res.exit},
        "observed": {"stdout": driver.short(res.stdout, 800),
                     "stderr": driver.short(res.stderr, 400)},
    }
    return driver.write_replay(PROP, payload), payload


def replay(path):
    with open(path, encoding="utf-8") as fhnd:
        payload = json.load(fhnd)
    viol = {"class": payload["violation_class"],
            "scenario": payload["scenario"], "recipe": payload["recipe"],
            "channel": payload["channel"], "faults": payload["faults"]}
    ok, res = rejudge(viol)
    same_log = res.digest() == payload["expect"]["event_log_sha256"]
    print("replay: class %s %s; event log %s" % (
        payload["violation_class"], "reproduced" if ok else
        "NOT reproduced", "identical" if same_log else "differs"))
    if ok:
        print("VIOLATION property=%s replay=%s" % (PROP, path))
        return 1
    return 0


def main():
    parser = argparse.ArgumentParser()
    parser.add_argument("--tier", default=None)
    parser.add_argument("--replay")
    parser.add_argument("--scenarios", type=int)
    parser.add_argument("--digest-only", action="store_true")
    parser.add_argument("--no-evidence", action="store_true")
    args = parser.parse_args()
    if args.replay:
        sys.exit(replay(args.replay))
    tier = driver.tier_from(args.tier)
    seed = driver.seed_from_env()
    total = args.scenarios or (6000 if tier == "quick" else 300000)
    nshards = 96 if tier == "quick" else 1024
    per = (total + nshards - 1) // nshards
    payloads = [(seed, s, s * per, min(total, (s + 1) * per), tier)
                for s in range(nshards) if s * per < total]
    start = time.time()
    print("C16 seed=%d tier=%s scenarios=%d" % (seed, tier, total))
    try:
        results = driver.run_shards(
            shard_main, payloads, cap_s=900 if tier == "quick" else 21600)
    except driver.HarnessError as ex:
        print("HARNESS-ERROR: %s" % ex)
        sys.exit(2)
    wall = time.time() - start
    agg = {"runs": 0, "steps": 0, "scenarios": 0}
    behaviours = set()
    violations = []
    samples = []
    digests = []
    fired = {}
    per_tool = {}
    ops = {}
    for res in results:
        for name, num in res["ops"].items():
            ops[name] = ops.get(name, 0) + num
        for key in agg:
            agg[key] += res[key]
        behaviours |= res["behaviours"]
        violations.extend(res["violations"])
        samples.extend(res["samples"])
        digests.extend(res["digests"])
        for kind, num in res["fired"].items():
            fired[kind] = fired.get(kind, 0) + num
        for tool, num in res["per_tool"].items():
            per_tool[tool] = per_tool.get(tool, 0) + num
    if args.digest_only:
        text = "\n".join("%d %s" % d for d in sorted(digests))
        print("BATCH-DIGEST %s" % hashlib.sha256(text.encode()).hexdigest())
        sys.exit(0)

    def reproduces(path):
        with open(path, encoding="utf-8") as fhnd:
            payload = json.load(fhnd)
        return rejudge({"class": payload["violation_class"],
                        "scenario": payload["scenario"],
                        "recipe": payload["recipe"],
                        "channel": payload["channel"],
                        "faults": payload["faults"]})[0]

    regressed = driver.run_regressions(PROP, reproduces)
    known = driver.known_for(PROP)
    reported = {}
    known_hits = {}
    hist = {}
    for viol in violations:
        hist[viol["class"]] = hist.get(viol["class"], 0) + 1
        entry = known_match(viol, known)
        if entry is not None:
            known_hits[entry["id"]] = entry
            continue
        key = viol["class"]
        if key not in reported:
            reported[key] = viol
    for entry in known_hits.values():
        print("KNOWN-FINDING: property=%s %s" % (PROP, entry["what"]))
    exit_code = 0
    replay_paths = []
    for path in regressed:
        print("VIOLATION property=%s replay=%s" % (PROP, path))
        print("  a defect recorded as fixed in known_findings.json is back")
        replay_paths.append(path)
        exit_code = 1
    for viol in list(reported.values())[:8]:
        path, _payload = write_violation(viol)
        replay_paths.append(path)
        print("VIOLATION property=%s replay=%s" % (PROP, path))
        print("  class=%s channel=%s argv=%s" % (
            viol["class"], viol["channel"], viol["recipe"]["argv"]))
        exit_code = 1
    print("scenarios=%d runs=%d steps=%d wall=%.1fs runs/hour=%.0f" % (
        agg["scenarios"], agg["runs"], agg["steps"], wall,
        agg["runs"] / max(wall, 1e-6) * 3600))
    print("runs per tool: %s" % sorted(per_tool.items()))
    print("read faults fired: %s; distinct behaviours: %d" % (
        sorted(fired.items()), len(behaviours)))
    for cls, num in sorted(hist.items()):
        print("  raw %5d  %s" % (num, cls))
    if not args.no_evidence:
        coverage = {
            "evaluations": agg["runs"],
            "distinct_nontrivial": len(behaviours),
            "rule": "one evaluation = one complete simulated run of a real "
                    "tool main(); each seeded scenario is run through every "
                    "delivery channel (file, explicit -, implicit stdin with "
                    "seeded chunking, tty with no file) and compared with "
                    "the library called directly on an independent load, "
                    "then re-run with single read faults (oserror / legal "
                    "short read). distinct = distinct (tool, channel, exit "
                    "class, operation/output-mode/edit kinds/option set) "
                    "tuples",
            "samples": samples[:6],
            "scenarios": agg["scenarios"],
            "runs_per_tool": per_tool,
            "operations_exercised_file_channel": dict(sorted(ops.items())),
            "read_faults_fired": fired,
            "simulated_io_steps": agg["steps"],
            "runs_per_hour": round(agg["runs"] / max(wall, 1e-6) * 3600),
            "exhaustive": False,
            "components": driver.REAL_AND_STUB,
            "repo": driver.repo_state(),
            "known_findings_matched": sorted(known_hits),
            "regression_replays_run": len(driver.regression_files(PROP)),
            "regression_replays_reproduced": len(regressed),
            "replays": replay_paths,
        }
        driver.write_evidence(
            PROP, tier, seed, "exploration", coverage,
            ["the library (Processor, Merger, Differ, search_for_paths, "
             "Parsers) is the reference for what each tool should print; "
             "whether the library is itself right is C01-C07",
             "yaml-diff's exit status is additionally judged against plain "
             "data equality of the two loaded documents (hash key order "
             "ignored, sequence order significant), independent of Differ",
             "document pairs for yaml-diff are built by explicit edits so "
             "that 'equal' is unambiguous (no 1 vs 1.0 vs true pairs)"],
            wall, len(reported) + len(regressed))
    sys.exit(exit_code)


if __name__ == "__main__":
    main()
