#!/venv/bin/python
"""
C17 -- a failing or interrupted tool run never loses the user's file.

Deterministic simulation of the real yaml-set / yaml-merge / eyaml-rotate-keys
entry points over a simulated file system, with *enumeration of every I/O
step of each scenario's own recorded trace* as the fault point, times every
fault kind applicable to that step (DESIGN.md section 3.5).

usage: c17.py [--tier quick|thorough] [--replay FILE] [--scenarios N]
"""
import argparse
import os
import random
import sys
import time

sys.path.insert(0, os.path.dirname(os.path.dirname(os.path.abspath(__file__))))
from sim import driver  # noqa: E402

driver.bootstrap()

from sim import gen_args  # noqa: E402
from sim.world import (FAULTABLE_KINDS, WRITE_KINDS, READ_KINDS,  # noqa: E402
                       EFFECT_KINDS)

PROP = "C17"
ERRNOS = ["EIO", "ENOSPC", "EACCES", "EMFILE"]


# ----------------------------------------------------------------------
# scenario generation
# ----------------------------------------------------------------------
def gen_scenario(rng):
    return with_symlink(rng, gen_scenario_plain(rng))


def gen_scenario_plain(rng):
    roll = rng.random()
    if roll < 0.45:
        if rng.random() < 0.4:
            return gen_args.gen_set(rng, label=rng.choice(
                gen_args.SET_FAILURES))
        return gen_args.gen_set(rng)
    if roll < 0.8:
        if rng.random() < 0.45:
            return gen_args.gen_merge(rng, label=rng.choice(
                gen_args.MERGE_FAILURES))
        return gen_args.gen_merge(rng)
    faults = {}
    if rng.random() < 0.25:
        faults[str(rng.randrange(0, 6))] = rng.choice(["fail", "empty"])
    return gen_args.gen_rotate(rng, peer_faults=faults, repeats=True)


def with_symlink(rng, recipe):
    """
    Now and then the file named on the command line is a symbolic link to
    the real file elsewhere (dot-file managers, /etc/alternatives, shared
    configuration trees).  What the user sees under that name, and under
    <name>.bak, is what the property is about.
    """
    import posixpath
    meta = recipe["meta"]
    if recipe.get("unreadable") or rng.random() >= 0.07:
        return recipe
    cands = [t for t in meta["targets"]
             if t in recipe["files"] and t not in meta["keep"]]
    if not cands:
        return recipe
    target = rng.choice(cands)
    name = "real-" + posixpath.basename(target)
    real = "/sim/w/store/" + name
    recipe["files"][real] = recipe["files"].pop(target)
    recipe["links"] = {target: rng.choice(["store/" + name, real])}
    meta["symlinked"] = True
    return recipe


def kinds_for(step_kind, path, recipe):
    """Fault kinds applicable to one recorded step."""
    if step_kind in WRITE_KINDS:
        kinds = [("oserror", "ENOSPC"), ("oserror", "EIO"),
                 ("torn-write", None), ("short", None),
                 ("crash-before", None), ("crash-after", None),
                 ("crash-torn", None)]
        if recipe["tool"] == "yaml-set" and path in recipe["meta"]["targets"]:
            kinds.append(("assert", None))
        return kinds
    if step_kind in READ_KINDS:
        return [("oserror", "EIO"), ("short", None), ("crash-before", None)]
    return [("oserror", None), ("crash-before", None), ("crash-after", None)]


def fault_plans(rng, recipe, base, tier):
    """All (thorough) or a seeded sample (quick) of single-fault plans."""
    plans = []
    for (k, kind, path, _n, _f) in base.trace:
        if kind not in FAULTABLE_KINDS:
            continue
        for fkind, arg in kinds_for(kind, path, recipe):
            if fkind == "oserror" and arg is None:
                arg = rng.choice(ERRNOS)
            if fkind in ("torn-write", "crash-torn", "short"):
                arg = rng.choice([0.0, 0.3, 0.5, 0.9])
            plans.append({"kind": fkind, "step": k, "arg": arg})
    if tier == "quick" and len(plans) > 36:
        plans = rng.sample(plans, 36)
        plans.sort(key=lambda p: (p["step"], p["kind"]))
    return plans


# ----------------------------------------------------------------------
# the oracle
# ----------------------------------------------------------------------
def _effective_mutation_before_fault(trace):
    """
    Did any step that changes the file system take effect before the fault
    event?  Returns (fault_seen, mutated_before).
    """
    mutated = False
    for (_k, kind, _path, _n, fault) in trace:
        if fault is not None and not kind.startswith("peer-"):
            if kind in EFFECT_KINDS and fault == "crash-after":
                mutated = True
            return True, mutated
        if kind in EFFECT_KINDS:
            mutated = True
    return False, mutated


def judge(recipe, fs0, res, faulted, base=None):
    """Violation classes of one run (empty list = the property held)."""
    meta = recipe["meta"]
    tool = recipe["tool"]
    out = []
    fs1 = res.fs
    # B: --output never replaces an existing file (any options, any fault)
    for path in meta["keep"]:
        # (only a file that exists can be replaced: the minimiser must not
        # be able to "simplify" the scenario by dropping that file)
        if path in fs0 and fs1.get(path) != fs0[path]:
            out.append("B:existing-output-file-replaced")
    label = meta["label"]
    if not faulted:
        # A: labelled pre-write failure => nothing on disk changed
        if label != "success" and tool in ("yaml-set", "yaml-merge"):
            if res.exit != 0 and fs1 != fs0:
                out.append("A:disk-changed-after-prewrite-failure:" + label)
        elif tool in ("yaml-set", "yaml-merge") and res.exit != 0 \
                and fs1 != fs0:
            # No fault was injected, so whatever made this run fail was in
            # its arguments and inputs from the start ("impossible change"):
            # a reason that exists before writing has to be found before
            # writing.
            out.append("A:disk-changed-by-a-request-that-was-refused-late")
        # C: the backup is the pre-image
        if meta["backup"] and res.exit == 0:
            written = {p for (_k, kind, p, _n, f) in res.trace
                       if kind == "open-w"}
            for target in meta["targets"]:
                if target in written and target in fs0:
                    if fs1.get(target + ".bak") != fs0[target]:
                        out.append("C:backup-is-not-the-preimage")
        return out
    # --- runs with one injected fault ---------------------------------
    fired, mutated_before = _effective_mutation_before_fault(res.trace)
    if not fired:
        return out
    if any(ev[4] == "short" for ev in res.trace):
        # a legal short transfer is not a failure: it must change nothing
        if base is not None and (res.exit, res.stdout, fs1) != \
                (base.exit, base.stdout, base.fs):
            out.append("ANOMALY:short-transfer-changed-the-outcome")
        return out
    if tool in ("yaml-set", "yaml-merge") and res.exit != 0 \
            and res.exit != "killed" \
            and not mutated_before and fs1 != fs0:
        out.append("A:disk-changed-after-failure-detected-before-writing")
    # D: with --backup, target or backup still holds the pre-image
    if meta["backup"]:
        for target in meta["targets"]:
            if target not in fs0:
                continue
            if fs1.get(target) != fs0[target] \
                    and fs1.get(target + ".bak") != fs0[target]:
                out.append("D:neither-target-nor-backup-holds-preimage")
    return out


def probes(recipe, res, plan):
    """Coverage probes: rare conditions that must be hit for a batch."""
    hit = set()
    event = None
    idx = None
    for i, ev in enumerate(res.trace):
        if ev[4] is not None and not ev[1].startswith("peer-"):
            event = ev
            idx = i
            break
    if event is None:
        return hit
    _k, kind, path, _n, fkind = event
    targets = recipe["meta"]["targets"]
    if path.endswith(".bak") and kind in ("open-w", "write", "copystat"):
        hit.add("fault-inside-copy2")
    if idx > 0 and res.trace[idx - 1][1] == "remove" \
            and res.trace[idx - 1][2].endswith(".bak"):
        hit.add("fault-between-remove-bak-and-copy")
    if kind == "write" and path in targets:
        hit.add("fault-after-target-truncated-before-dump-finished")
    if fkind == "assert" and res.exit == 3:
        hit.add("restore-on-assertion-block-ran")
    if recipe["tool"] == "eyaml-rotate-keys" and len(targets) > 1 \
            and path.startswith(targets[1]):
        hit.add("fault-during-rotate-second-file")
    if fkind == "interrupt" and "keyboard interrupt" in res.stderr:
        hit.add("interrupt-caught-by-parsers")
    if fkind == "interrupt" and res.exit == 130:
        hit.add("interrupt-uncaught")
    if kind.startswith("tmp-"):
        hit.add("fault-on-temporary-preimage")
    if fkind in ("crash-torn", "torn-write") and path in targets:
        hit.add("torn-write-of-target")
    return hit


def behaviour(recipe, res, plan):
    meta = recipe["meta"]
    where = "-"
    skind = "-"
    fkind = "-"
    if plan is not None:
        fkind = plan["kind"]
        for ev in res.trace:
            if ev[4] is not None and not ev[1].startswith("peer-"):
                skind = ev[1]
                path = ev[2]
                if path in meta["targets"]:
                    where = "target"
                elif path.endswith(".bak"):
                    where = "backup"
                elif path.startswith("<tmp"):
                    where = "tmp"
                elif path.startswith("line:"):
                    where = "line"
                else:
                    where = "input"
                break
    exitc = res.exit if res.exit in (0, "killed") else "nonzero"
    return (recipe["tool"], meta["label"], meta.get("mode") or
            meta.get("op") or "-", bool(meta["backup"]),
            meta.get("stale_bak", "-"), fkind, skind, where, exitc)


# ----------------------------------------------------------------------
# one scenario: base run, fault enumeration, interrupts
# ----------------------------------------------------------------------
def run_scenario(seed, shard, idx, tier):
    rng = random.Random("%d/%s/%d/%d" % (seed, PROP, shard, idx))
    recipe = gen_scenario(rng)
    fs0 = driver.initial_fs(recipe)
    want_lines = (idx % 4 == 0) if tier == "quick" else (idx % 2 == 0)
    base = driver.execute(recipe, count_lines=want_lines)
    stats = {"runs": 1, "steps": base.steps, "violations": [],
             "planned": {}, "fired": {}, "probes": set(),
             "behaviours": set(), "mislabelled": 0, "digest": base.digest(),
             "sample": None}
    stats["behaviours"].add(behaviour(recipe, base, None))
    meta = recipe["meta"]
    stats["label"] = "%s:%s:%s" % (
        recipe["tool"], meta["label"] if meta["label"] != "success"
        else (meta.get("op") or meta.get("mode") or "success"),
        "exit0" if base.exit == 0 else "nonzero")
    if meta["label"] != "success" and base.exit == 0 \
            and recipe["tool"] != "eyaml-rotate-keys":
        stats["mislabelled"] += 1
        stats["mislabel_example"] = (meta["label"], recipe["argv"])
    for cls in judge(recipe, fs0, base, False):
        stats["violations"].append(
            {"class": cls, "recipe": recipe, "faults": []})
    plans = fault_plans(rng, recipe, base, tier)
    if want_lines and base.lines > 0:
        count = 3 if tier == "quick" else 12
        if recipe["tool"] == "yaml-merge":
            # several inputs are loaded one after the other: more of the run
            # is "load phase", where an aborted load must not pass for a
            # document
            count *= 3
        for num in range(count):
            line = driver.sample_load_phase_line(rng, base) \
                if num % 2 else None
            plans.append({"kind": "interrupt",
                          "step": line if line is not None
                          else rng.randrange(base.lines), "arg": None})
        # SIGINT placed inside the save: right around the traced line at
        # which each mutating I/O step was issued (in-flight state), not
        # only uniformly over a run that is mostly parsing
        near = [ln for (_k, kind, ln) in base.step_lines
                if kind in EFFECT_KINDS + ("write", "tmp-write", "close",
                                           "close-w", "fsync")]
        picks = near if tier != "quick" else \
            rng.sample(near, min(4, len(near)))
        for line in picks:
            plans.append({"kind": "interrupt",
                          "step": max(0, line + rng.choice([-1, 0, 0, 1, 2])),
                          "arg": None})
    import hashlib
    rolling = hashlib.sha256(stats["digest"].encode())
    for plan in plans:
        res = driver.execute(recipe, [plan])
        rolling.update(res.digest().encode())
        stats["runs"] += 1
        stats["steps"] += res.steps
        stats["planned"][plan["kind"]] = \
            stats["planned"].get(plan["kind"], 0) + 1
        if res.fired:
            stats["fired"][plan["kind"]] = \
                stats["fired"].get(plan["kind"], 0) + 1
            stats["probes"] |= probes(recipe, res, plan)
            stats["behaviours"].add(behaviour(recipe, res, plan))
        for cls in judge(recipe, fs0, res, True, base):
            stats["violations"].append(
                {"class": cls, "recipe": recipe, "faults": [plan]})
    stats["digest"] = rolling.hexdigest()
    if idx % 97 == 0:
        stats["sample"] = {
            "tool": recipe["tool"], "argv": recipe["argv"],
            "label": meta["label"], "exit": base.exit,
            "files": {p: driver.short(t, 160)
                      for p, t in recipe["files"].items()},
            "knobs": recipe["knobs"],
            "trace_kinds": [ev[1] for ev in base.trace][:60],
            "fault_plans_run": len(plans),
        }
    return stats


def shard_main(payload):
    seed, shard, lo, hi, tier = payload
    driver.warm_up()
    agg = {"runs": 0, "steps": 0, "violations": [], "planned": {},
           "fired": {}, "probes": set(), "behaviours": set(),
           "mislabelled": 0, "mislabel_examples": [], "digests": [],
           "samples": [], "scenarios": 0, "labels": {}}
    for idx in range(lo, hi):
        st = run_scenario(seed, shard, idx, tier)
        agg["scenarios"] += 1
        agg["runs"] += st["runs"]
        agg["steps"] += st["steps"]
        agg["violations"].extend(st["violations"][:3])
        for key in ("planned", "fired"):
            for kind, num in st[key].items():
                agg[key][kind] = agg[key].get(kind, 0) + num
        agg["probes"] |= st["probes"]
        agg["behaviours"] |= st["behaviours"]
        agg["mislabelled"] += st["mislabelled"]
        if "mislabel_example" in st and len(agg["mislabel_examples"]) < 3:
            agg["mislabel_examples"].append(st["mislabel_example"])
        agg["digests"].append((idx, st["digest"]))
        agg["labels"][st["label"]] = agg["labels"].get(st["label"], 0) + 1
        if st["sample"]:
            agg["samples"].append(st["sample"])
    return agg



# ----------------------------------------------------------------------
# session mode (clause E): a history of invocations on ONE simulated disk
# ----------------------------------------------------------------------
SESSION_TARGET = gen_args.W + "state.yaml"


def _session_step(rng, fs, step_no):
    """One invocation drawn against the current disk state."""
    from sim.util import strict_load
    text = fs.get(SESSION_TARGET, b"").decode("utf-8", "replace")
    data, loaded = strict_load(text) if text else (None, False)
    keys = []
    if loaded and isinstance(data, dict) and isinstance(data.get("sess"),
                                                        dict):
        keys = [str(k) for k in data["sess"]]
    backup = rng.random() < 0.75
    roll = rng.random()
    label = "success"
    files_extra = {}
    if roll < 0.35:
        argv = ["-g", "/sess/k%d" % rng.randrange(6), "-a",
                rng.choice(["v%d" % step_no, "7", "true", "x y"])]
        tool = "yaml-set"
    elif roll < 0.5:
        key = "k%d" % rng.randrange(6)
        argv = ["-g", "/sess/" + key, "-D"]
        tool = "yaml-set"
        if key not in keys:
            label = "delete-unmatched"
    elif roll < 0.62:
        key = rng.choice(keys) if keys else "k0"
        argv = ["-g", "/sess/" + key, "-a", "w", "-c",
                "never-the-current-value"]
        tool = "yaml-set"
        label = "failed-check" if keys else "success"
        if not keys:
            argv = ["-g", "/sess/k0", "-a", "w"]
    elif roll < 0.72:
        argv = ["-g", "/sess/k%d/deeper" % rng.randrange(6), "-a", "v"]
        tool = "yaml-set"
        label = "maybe"         # fails when the key holds a scalar
    elif roll < 0.9:
        extra = gen_args.W + "extra%d.yaml" % step_no
        files_extra[extra] = "---\nsess:\n  m%d: merged\nlist:\n  - %d\n" \
            % (step_no, step_no)
        argv = ["-w", SESSION_TARGET]
        if rng.random() < 0.4:
            argv += ["-A", rng.choice(["all", "unique"])]
        argv += [SESSION_TARGET, extra]
        tool = "yaml-merge"
    else:
        extra = gen_args.W + "clash%d.yaml" % step_no
        files_extra[extra] = "---\n- a list\n- into a hash\n"
        argv = ["-w", SESSION_TARGET, SESSION_TARGET, extra]
        tool = "yaml-merge"
        label = "type-clash"
    if backup:
        argv = (argv[:2] + ["-b"] + argv[2:]) if tool == "yaml-merge" \
            else argv + ["-b"]
    if tool == "yaml-set":
        argv.append(SESSION_TARGET)
    return {"tool": tool, "argv": argv, "extra": files_extra,
            "meta": {"label": label, "targets": [SESSION_TARGET],
                     "backup": backup, "keep": [], "family": "session"}}


def _session_recipe(step, fs, knobs):
    files = dict(fs)
    files.update({p: t.encode("utf-8") for p, t in step["extra"].items()})
    return {"tool": step["tool"], "argv": step["argv"], "files": files,
            "unreadable": [], "dirs": [], "stdin": "", "tty": True,
            "stdin_chunks": None, "knobs": knobs, "peer": None,
            "secrets_seed": 1, "meta": step["meta"]}


def run_session(seed, shard, idx):
    """3-10 invocations, each with at most one fault, on one disk."""
    from sim.util import strict_load
    rng = random.Random("%d/%s-session/%d/%d" % (seed, PROP, shard, idx))
    knobs = gen_args.gen_knobs(rng)
    fs = {SESSION_TARGET: b"---\nsess:\n  k0: start\nlist:\n  - 0\n",
          gen_args.W + "other.yaml": b"---\nbystander: 1\n"}
    history = []
    stats = {"runs": 0, "steps": 0, "violations": [], "fired": {},
             "planned": {}, "behaviours": set(), "probes": set(),
             "operator_restores": 0, "session_steps": 0}
    for step_no in range(rng.choice([3, 4, 6, 8, 10])):
        step = _session_step(rng, fs, step_no)
        recipe = _session_recipe(step, fs, knobs)
        fs0 = driver.initial_fs(recipe)
        base = driver.execute(recipe)
        stats["runs"] += 1
        plan = None
        if rng.random() < 0.6:
            points = [ev for ev in base.trace if ev[1] in FAULTABLE_KINDS]
            if points:
                ev = rng.choice(points)
                fkind, arg = rng.choice(kinds_for(ev[1], ev[2], recipe))
                if fkind == "oserror" and arg is None:
                    arg = rng.choice(ERRNOS)
                if fkind in ("torn-write", "crash-torn", "short"):
                    arg = rng.choice([0.0, 0.3, 0.5, 0.9])
                plan = {"kind": fkind, "step": ev[0], "arg": arg}
        if step["meta"]["label"] == "maybe":
            step["meta"]["label"] = "impossible-create" \
                if base.exit != 0 else "success"
        if plan is None:
            res = base
            classes = judge(recipe, fs0, res, False)
        else:
            res = driver.execute(recipe, [plan])
            stats["runs"] += 1
            stats["planned"][plan["kind"]] = \
                stats["planned"].get(plan["kind"], 0) + 1
            if res.fired:
                stats["fired"][plan["kind"]] = \
                    stats["fired"].get(plan["kind"], 0) + 1
                stats["probes"] |= probes(recipe, res, plan)
            classes = judge(recipe, fs0, res, True, base)
        stats["steps"] += res.steps
        stats["session_steps"] += 1
        history.append({"tool": step["tool"], "argv": step["argv"],
                        "extra": step["extra"], "meta": step["meta"],
                        "faults": [plan] if plan else []})
        stats["behaviours"].add(("session", step["tool"],
                                 step["meta"]["label"],
                                 step["meta"]["backup"],
                                 plan["kind"] if plan else "-",
                                 res.exit if res.exit in (0, "killed")
                                 else "nonzero"))
        for cls in classes:
            if cls.startswith("ANOMALY"):
                continue
            stats["violations"].append(
                {"class": "E:" + cls, "session": list(history),
                 "knobs": knobs, "recipe": recipe,
                 "faults": [plan] if plan else []})
        if classes:
            break
        # the disk after this invocation is the next pre-image; a damaged
        # target is restored by the "operator" from .bak (or from their own
        # copy when they chose to run without --backup)
        fs = dict(res.fs)
        text = fs.get(SESSION_TARGET, b"").decode("utf-8", "replace")
        okay = bool(text) and strict_load(text)[1]
        if not okay or (res.exit != 0 and fs.get(SESSION_TARGET)
                        != fs0.get(SESSION_TARGET)):
            bak = fs.get(SESSION_TARGET + ".bak")
            if step["meta"]["backup"] and bak == fs0[SESSION_TARGET]:
                fs[SESSION_TARGET] = bak
            else:
                fs[SESSION_TARGET] = fs0[SESSION_TARGET]
            stats["operator_restores"] += 1
            stats["probes"].add("session-operator-restored-from-backup")
    return stats


def session_shard(payload):
    seed, shard, lo, hi, _tier = payload
    driver.warm_up()
    agg = {"runs": 0, "steps": 0, "violations": [], "planned": {},
           "fired": {}, "probes": set(), "behaviours": set(),
           "operator_restores": 0, "session_steps": 0, "sessions": 0}
    for idx in range(lo, hi):
        st = run_session(seed, shard, idx)
        agg["sessions"] += 1
        for key in ("runs", "steps", "operator_restores", "session_steps"):
            agg[key] += st[key]
        agg["violations"].extend(st["violations"][:2])
        for key in ("planned", "fired"):
            for kind, num in st[key].items():
                agg[key][kind] = agg[key].get(kind, 0) + num
        agg["probes"] |= st["probes"]
        agg["behaviours"] |= st["behaviours"]
    return agg


def replay_session_history(payload):
    """Re-execute a recorded session; classes of its last step."""
    fs = {p: (d.encode("utf-8") if isinstance(d, str) else d)
          for p, d in payload["files0"].items()}
    classes = []
    res = None
    for step in payload["session"]:
        recipe = _session_recipe(step, fs, payload.get("knobs") or {})
        fs0 = driver.initial_fs(recipe)
        base = driver.execute(recipe)
        if step["faults"]:
            res = driver.execute(recipe, step["faults"])
            classes = judge(recipe, fs0, res, True, base)
        else:
            res = base
            classes = judge(recipe, fs0, res, False)
        fs = dict(res.fs)
        if classes:
            break
        from sim.util import strict_load
        text = fs.get(SESSION_TARGET, b"").decode("utf-8", "replace")
        okay = bool(text) and strict_load(text)[1]
        if not okay or (res.exit != 0 and fs.get(SESSION_TARGET)
                        != fs0.get(SESSION_TARGET)):
            bak = fs.get(SESSION_TARGET + ".bak")
            if step["meta"]["backup"] and bak == fs0[SESSION_TARGET]:
                fs[SESSION_TARGET] = bak
            else:
                fs[SESSION_TARGET] = fs0[SESSION_TARGET]
    return ["E:" + c for c in classes], res

# ----------------------------------------------------------------------
# minimisation and replay
# ----------------------------------------------------------------------
def classes_of(recipe, faults):
    fs0 = driver.initial_fs(recipe)
    res = driver.execute(recipe, faults)
    # (the undisturbed run is what a legal short transfer is compared with)
    base = driver.execute(recipe) if faults else None
    return judge(recipe, fs0, res, bool(faults), base), res


def minimise(viol):
    """Greedy shrink while the same violation class persists."""
    cls = viol["class"]
    recipe = dict(viol["recipe"])
    faults = list(viol["faults"])

    def still(rcp, flt):
        try:
            got, _ = classes_of(rcp, flt)
        except Exception:  # pylint: disable=broad-except
            return False
        return cls in got

    # default knobs
    cand = dict(recipe, knobs={})
    if faults:
        # step numbers depend on the knobs: keep them unless it still fails
        pass
    elif still(cand, faults):
        recipe = cand
    # drop optional flags one at a time
    for flag in ("-v", "-d", "-q", "-S"):
        if flag in recipe["argv"]:
            cand = dict(recipe, argv=[a for a in recipe["argv"]
                                      if a != flag])
            if still(cand, faults):
                recipe = cand
    # drop files nobody needs
    for path in sorted(recipe["files"]):
        if path in recipe["argv"]:
            continue
        files = dict(recipe["files"])
        del files[path]
        cand = dict(recipe, files=files)
        if still(cand, faults):
            recipe = cand
    # move the fault to the earliest step that still fails
    if faults and faults[0]["kind"] != "interrupt":
        step = faults[0]["step"]
        for earlier in range(step):
            cand_f = [dict(faults[0], step=earlier)]
            if still(recipe, cand_f):
                faults = cand_f
                break
    return dict(viol, recipe=recipe, faults=faults)


def write_session_violation(viol):
    payload = {
        "property": PROP, "engine": "tool-world", "mode": "session",
        "violation_class": viol["class"], "session": viol["session"],
        "knobs": viol["knobs"],
        "files0": {SESSION_TARGET: "---\nsess:\n  k0: start\nlist:\n  - 0\n",
                   gen_args.W + "other.yaml": "---\nbystander: 1\n"},
        "repo": driver.repo_state(),
    }
    # drop earlier steps while the same class persists
    steps = list(payload["session"])
    changed = True
    while changed:
        changed = False
        for i in range(len(steps) - 2, -1, -1):
            cand = dict(payload, session=steps[:i] + steps[i + 1:])
            try:
                if viol["class"] in replay_session_history(cand)[0]:
                    steps = cand["session"]
                    changed = True
            except Exception:  # pylint: disable=broad-except
                pass
    payload["session"] = steps
    _classes, res = replay_session_history(payload)
    payload["expect"] = {"event_log_sha256": res.digest(), "exit": res.exit}
    return driver.write_replay(PROP, payload), payload


def write_violation(viol):
    if "session" in viol:
        return write_session_violation(viol)
    viol = minimise(viol)
    _classes, res = classes_of(viol["recipe"], viol["faults"])
    recipe = {k: v for k, v in viol["recipe"].items()
              if k not in ("model", "models")}
    payload = {
        "property": PROP, "engine": "tool-world",
        "violation_class": viol["class"], "recipe": recipe,
        "faults": viol["faults"], "repo": driver.repo_state(),
        "expect": {"event_log_sha256": res.digest(), "exit": res.exit},
        "observed": {"stderr": driver.short(res.stderr, 600),
                     "trace": [list(ev) for ev in res.trace][:200],
                     "files_after": {p: d.decode("utf-8", "replace")
                                     for p, d in res.fs.items()}},
    }
    return driver.write_replay(PROP, payload), payload


def replay(path):
    import json
    with open(path, encoding="utf-8") as fhnd:
        payload = json.load(fhnd)
    if payload.get("mode") == "session":
        classes, res = replay_session_history(payload)
    else:
        classes, res = classes_of(payload["recipe"], payload["faults"])
    same_class = payload["violation_class"] in classes
    same_log = res.digest() == payload["expect"]["event_log_sha256"]
    print("replay: class %s %s; event log %s" % (
        payload["violation_class"],
        "reproduced" if same_class else "NOT reproduced",
        "identical" if same_log else "differs"))
    if same_class:
        print("VIOLATION property=%s replay=%s" % (PROP, path))
        return 1
    return 0


def known_match(viol, known):
    for entry in known:
        if entry.get("class") == viol["class"] and \
                entry.get("tool") == viol["recipe"]["tool"]:
            return entry
    return None


# ----------------------------------------------------------------------
def main():
    parser = argparse.ArgumentParser()
    parser.add_argument("--tier", default=None)
    parser.add_argument("--replay")
    parser.add_argument("--scenarios", type=int)
    parser.add_argument("--sessions", type=int)
    parser.add_argument("--digest-only", action="store_true",
                        help="print per-scenario base digests (self-test)")
    parser.add_argument("--no-evidence", action="store_true")
    args = parser.parse_args()
    if args.replay:
        sys.exit(replay(args.replay))
    tier = driver.tier_from(args.tier)
    seed = driver.seed_from_env()
    total = args.scenarios or (2000 if tier == "quick" else 12000)
    nshards = 96 if tier == "quick" else 512
    per = (total + nshards - 1) // nshards
    payloads = [(seed, s, s * per, min(total, (s + 1) * per), tier)
                for s in range(nshards) if s * per < total]
    start = time.time()
    print("C17 seed=%d tier=%s scenarios=%d" % (seed, tier, total))
    try:
        results = driver.run_shards(
            shard_main, payloads,
            cap_s=900 if tier == "quick" else 21600)
    except driver.HarnessError as ex:
        print("HARNESS-ERROR: %s" % ex)
        sys.exit(2)
    nsessions = 0 if args.digest_only else (
        args.sessions if args.sessions is not None
        else (600 if tier == "quick" else 20000))
    session_results = []
    if nsessions:
        sper = (nsessions + nshards - 1) // nshards
        spayloads = [(seed, s, s * sper, min(nsessions, (s + 1) * sper),
                      tier) for s in range(nshards) if s * sper < nsessions]
        try:
            session_results = driver.run_shards(
                session_shard, spayloads,
                cap_s=900 if tier == "quick" else 21600)
        except driver.HarnessError as ex:
            print("HARNESS-ERROR: %s" % ex)
            sys.exit(2)
    wall = time.time() - start
    agg = {"runs": 0, "steps": 0, "scenarios": 0, "mislabelled": 0,
           "planned": {}, "fired": {}, "probes": set(), "behaviours": set(),
           "violations": [], "samples": [], "digests": [],
           "mislabel_examples": [], "labels": {}}
    for res in results:
        for key in ("runs", "steps", "scenarios", "mislabelled"):
            agg[key] += res[key]
        for key in ("planned", "fired"):
            for kind, num in res[key].items():
                agg[key][kind] = agg[key].get(kind, 0) + num
        agg["probes"] |= res["probes"]
        agg["behaviours"] |= res["behaviours"]
        agg["violations"].extend(res["violations"])
        agg["samples"].extend(res["samples"])
        agg["digests"].extend(res["digests"])
        for name, num in res["labels"].items():
            agg["labels"][name] = agg["labels"].get(name, 0) + num
        agg["mislabel_examples"].extend(res["mislabel_examples"])
    sess = {"sessions": 0, "session_steps": 0, "operator_restores": 0}
    for res in session_results:
        for key in ("runs", "steps"):
            agg[key] += res[key]
        for key in sess:
            sess[key] += res[key]
        for key in ("planned", "fired"):
            for kind, num in res[key].items():
                agg[key][kind] = agg[key].get(kind, 0) + num
        agg["probes"] |= res["probes"]
        agg["behaviours"] |= res["behaviours"]
        agg["violations"].extend(res["violations"])
    if args.digest_only:
        import hashlib
        text = "\n".join("%d %s" % d for d in sorted(agg["digests"]))
        print("BATCH-DIGEST %s" % hashlib.sha256(text.encode()).hexdigest())
        sys.exit(0)
    def reproduces(path):
        import json as _json
        with open(path, encoding="utf-8") as fhnd:
            payload = _json.load(fhnd)
        if payload.get("mode") == "session":
            return payload["violation_class"] in \
                replay_session_history(payload)[0]
        return payload["violation_class"] in classes_of(
            payload["recipe"], payload["faults"])[0]

    regressed = driver.run_regressions(PROP, reproduces)
    known = driver.known_for(PROP)
    reported = {}
    known_hits = {}
    for viol in agg["violations"]:
        entry = known_match(viol, known)
        if entry is not None:
            known_hits[entry["id"]] = entry
            continue
        key = (viol["class"], viol["recipe"]["tool"])
        if key not in reported and len(reported) < 5:
            reported[key] = viol
    exit_code = 0
    for entry in known_hits.values():
        print("KNOWN-FINDING: property=%s %s" % (PROP, entry["what"]))
    replay_paths = []
    for path in regressed:
        print("VIOLATION property=%s replay=%s" % (PROP, path))
        print("  a defect recorded as fixed in known_findings.json is back")
        replay_paths.append(path)
        exit_code = 1
    for viol in reported.values():
        path, _payload = write_violation(viol)
        replay_paths.append(path)
        print("VIOLATION property=%s replay=%s" % (PROP, path))
        print("  class=%s tool=%s argv=%s faults=%s" % (
            viol["class"], viol["recipe"]["tool"], viol["recipe"]["argv"],
            viol["faults"]))
        exit_code = 1
    needed = ["fault-inside-copy2", "fault-between-remove-bak-and-copy",
              "fault-after-target-truncated-before-dump-finished",
              "restore-on-assertion-block-ran",
              "fault-during-rotate-second-file",
              "interrupt-caught-by-parsers"]
    missing = [p for p in needed if p not in agg["probes"]]
    print("scenarios=%d runs=%d steps=%d wall=%.1fs runs/hour=%.0f" % (
        agg["scenarios"], agg["runs"], agg["steps"], wall,
        agg["runs"] / max(wall, 1e-6) * 3600))
    print("session mode: %d sessions, %d invocations, %d operator restores"
          % (sess["sessions"], sess["session_steps"],
             sess["operator_restores"]))
    print("faults fired: %s" % sorted(agg["fired"].items()))
    print("probes hit: %s" % sorted(agg["probes"]))
    print("distinct behaviours: %d; mislabelled scenarios: %d %s" % (
        len(agg["behaviours"]), agg["mislabelled"],
        agg["mislabel_examples"][:2]))
    if missing:
        print("COVERAGE-WARNING: probes never hit: %s" % missing)
    if not args.no_evidence:
        coverage = {
            "evaluations": agg["runs"],
            "distinct_nontrivial": len(agg["behaviours"]),
            "rule": "one evaluation = one complete simulated run of a real "
                    "tool main(); scenarios are seeded; for each scenario "
                    "every faultable I/O step of its own fault-free trace is "
                    "a fault point (quick: a seeded sample of <=36 plans per "
                    "scenario; thorough: all) x every applicable fault kind, "
                    "plus sampled SIGINT line positions. distinct = distinct "
                    "(tool, failure label, output-mode/op, backup?, stale "
                    ".bak state, fault kind, faulted step kind, faulted file "
                    "role, exit class) tuples among runs whose fault FIRED",
            "samples": agg["samples"][:6],
            "scenarios": agg["scenarios"],
            "scenario_kinds_exercised_fault_free": dict(
                sorted(agg["labels"].items())),
            "session_mode": sess,
            "simulated_io_steps": agg["steps"],
            "runs_per_hour": round(agg["runs"] / max(wall, 1e-6) * 3600),
            "faults_planned": agg["planned"],
            "faults_fired": agg["fired"],
            "probes_hit": sorted(agg["probes"]),
            "probes_missing": missing,
            "mislabelled_scenarios": agg["mislabelled"],
            "exhaustive": False,
            "fault_points_enumerated": tier == "thorough",
            "components": driver.REAL_AND_STUB,
            "repo": driver.repo_state(),
            "known_findings_matched": sorted(known_hits),
            "regression_replays_run": len(driver.regression_files(PROP)),
            "regression_replays_reproduced": len(regressed),
            "replays": replay_paths,
        }
        driver.write_evidence(
            PROP, tier, seed, "fault_enumeration", coverage,
            ["SimFS models POSIX open(O_TRUNC)/unlink/write semantics; "
             "power loss with unsynced page cache is not modelled (the code "
             "never fsyncs and C17 does not promise it)",
             "single fault per run, as the property states",
             "shutil.copy2 is modelled as open-src, open+truncate-dst, "
             "chunked copy, copystat (CPython's order)",
             "no second process races the tool on the same files"],
            wall, len(reported) + len(regressed))
    sys.exit(exit_code)


if __name__ == "__main__":
    main()
